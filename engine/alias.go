package main

import (
	"go/ast"
	"go/token"
	"go/types"
)

// checkSliceAliasing is the side condition behind the assumption "aliasing of
// backing arrays is not modelled": the logic treats slices as values, so
// `a := b; a = append(a, x)` leaves b untouched in the model, while at run
// time the append may write into the array b still sees. A function body is
// inside the subset only if no two slice variables that were copied from one
// another (directly or through a re-slice `b[i:j]`) are both in use while one
// of them is appended to. Syntactic and flow-insensitive: a variable counts as
// "in use" if it is mentioned anywhere except in the copying assignment itself.
func (vc *VC) checkSliceAliasing(fi *FuncInfo) {
	if fi == nil || fi.Decl == nil || fi.Decl.Body == nil {
		return
	}
	info := fi.Pkg.TypesInfo
	isSlice := func(o types.Object) bool {
		if o == nil {
			return false
		}
		_, ok := o.Type().Underlying().(*types.Slice)
		return ok
	}
	objOf := func(e ast.Expr) types.Object {
		for {
			switch x := e.(type) {
			case *ast.ParenExpr:
				e = x.X
				continue
			case *ast.SliceExpr:
				e = x.X
				continue
			case *ast.Ident:
				if o := info.Uses[x]; o != nil {
					return o
				}
				return info.Defs[x]
			}
			return nil
		}
	}
	parent := map[types.Object]types.Object{}
	var find func(o types.Object) types.Object
	find = func(o types.Object) types.Object {
		if p, ok := parent[o]; ok && p != o {
			r := find(p)
			parent[o] = r
			return r
		}
		parent[o] = o
		return o
	}
	copyIdents := map[*ast.Ident]bool{} // identifier occurrences that are the copy itself
	appended := map[types.Object]token.Pos{}
	link := func(lhs, rhs ast.Expr) {
		lid, ok := lhs.(*ast.Ident)
		if !ok || lid.Name == "_" {
			return
		}
		lo := objOf(lid)
		ro := objOf(rhs)
		if lo == nil || ro == nil || lo == ro || !isSlice(lo) || !isSlice(ro) {
			return
		}
		if _, isVar := ro.(*types.Var); !isVar {
			return
		}
		parent[find(lo)] = find(ro)
		copyIdents[lid] = true
		ast.Inspect(rhs, func(n ast.Node) bool {
			if id, ok := n.(*ast.Ident); ok {
				copyIdents[id] = true
			}
			return true
		})
	}
	ast.Inspect(fi.Decl.Body, func(n ast.Node) bool {
		switch s := n.(type) {
		case *ast.AssignStmt:
			if len(s.Lhs) == len(s.Rhs) {
				for i := range s.Lhs {
					link(s.Lhs[i], s.Rhs[i])
				}
			}
		case *ast.ValueSpec:
			if len(s.Names) == len(s.Values) {
				for i := range s.Names {
					link(s.Names[i], s.Values[i])
				}
			}
		case *ast.CallExpr:
			if id, ok := s.Fun.(*ast.Ident); ok && id.Name == "append" && len(s.Args) > 0 {
				if _, isBuiltin := info.Uses[id].(*types.Builtin); isBuiltin {
					if o := objOf(s.Args[0]); o != nil && isSlice(o) {
						if _, seen := appended[o]; !seen {
							appended[o] = s.Pos()
						}
					}
				}
			}
		}
		return true
	})
	if len(parent) == 0 || len(appended) == 0 {
		return
	}
	// variables mentioned outside the copying assignments
	used := map[types.Object]bool{}
	ast.Inspect(fi.Decl.Body, func(n ast.Node) bool {
		if id, ok := n.(*ast.Ident); ok && !copyIdents[id] {
			if o := info.Uses[id]; o != nil {
				used[o] = true
			}
		}
		return true
	})
	for a, pos := range appended {
		if _, linked := parent[a]; !linked {
			continue
		}
		for b := range parent {
			if b != a && find(a) == find(b) && (used[b] || appended[b] != token.NoPos) {
				x, y := a.Name(), b.Name()
				if y < x {
					x, y = y, x
				}
				vc.unsupportedf(pos, "slices %s and %s are copies of one another (shared backing array) and one is appended to while the other is in use: slice aliasing is not modelled", x, y)
			}
		}
	}
}
