package main

// Builtins, conversions and exactly-modelled library functions.

import (
	"fmt"
	"go/ast"
	"go/constant"
	"go/token"
	"go/types"
	"strings"
)

func (vc *VC) evalConversion(call *ast.CallExpr, to types.Type, st *State) Value {
	if len(call.Args) != 1 {
		vc.unsupportedf(call.Pos(), "conversion with %d args", len(call.Args))
		return vc.unknown("conv", to)
	}
	arg := ast.Unparen(call.Args[0])
	from := vc.typeOf(arg)
	// int64(math.Pow10(n)) idiom
	if inner, ok := arg.(*ast.CallExpr); ok {
		if fn := vc.calleeOf(inner); fn != nil && fn.Pkg() != nil && fn.Pkg().Path() == "math" && fn.Name() == "Pow10" {
			if lo, _ := intRange(to); lo != nil {
				n := vc.term(vc.evalExpr(inner.Args[0], st), call.Pos())
				vc.ss.declare(&sortInfo{Name: "fn$pow10", Kind: "const", Decl: pow10Decl})
				exact := Term{fmt.Sprintf("(pow10 %s)", n.S), SInt, to}
				// float -> int conversion of an out-of-range value is
				// implementation-defined; inside 0..18 the value is exact
				if vc.safety || vc.checked {
					vc.oblige("pow10-range", "", call.Pos(), st.pc, Term{fmt.Sprintf("(and (<= 0 %s) (<= %s 18))", n.S, n.S), SBool, nil}, "argument of math.Pow10 within the exactly representable range 0..18")
				}
				return vc.arith(exact, to, st, call, "conv")
			}
		}
	}
	v := vc.evalExpr(arg, st)
	tm, ok := v.(Term)
	if !ok {
		return v // function value conversions
	}
	ts := vc.ss.sortOf(to)
	switch {
	case tm.Sort == SInt && ts == SInt:
		exact := tm
		exact.T = to
		flo, fhi := intRange(from)
		tlo, thi := intRange(to)
		if tlo == nil {
			return exact
		}
		if flo != nil && flo.Cmp(tlo) >= 0 && fhi.Cmp(thi) <= 0 {
			return exact // widening
		}
		return vc.arith(exact, to, st, call, "conv")
	case tm.Sort == ts:
		tm.T = to
		return tm
	case tm.Sort == "Nil":
		return vc.ss.zeroOfSort(ts, to)
	case ts == SStr && tm.Sort == SInt:
		// string(rune)
		r := vc.freshOfSort("runestr", SStr, to)
		return r
	case ts == SStr:
		if si := vc.ss.info[tm.Sort]; si != nil && si.Kind == "slice" {
			// string(bytes)
			fn := "gs.of." + string(tm.Sort)
			vc.ss.declare(&sortInfo{Name: Sort("fn$" + fn), Kind: "const", Decl: fmt.Sprintf("(declare-fun %s (%s) Str)", fn, tm.Sort)})
			r := Term{fmt.Sprintf("(%s %s)", fn, tm.S), SStr, to}
			r = vc.define("s", r)
			vc.assume(tBool(true), Term{fmt.Sprintf("(= (gs.len %s) (len.%s %s))", r.S, tm.Sort, tm.S), SBool, nil})
			if vc.ss.sortOf(si.Elem) == SInt {
				vc.assume(tBool(true), Term{fmt.Sprintf("(forall ((k! Int)) (! (=> (and (<= 0 k!) (< k! (gs.len %s))) (= (gs.at %s k!) (select (arr.%s %s) k!))) :pattern ((gs.at %s k!))))", r.S, r.S, tm.Sort, tm.S, r.S), SBool, nil})
			}
			return r
		}
	case tm.Sort == SStr:
		if si := vc.ss.info[ts]; si != nil && si.Kind == "slice" {
			r := vc.freshOfSort("bytes", ts, to)
			vc.assume(tBool(true), Term{fmt.Sprintf("(and (= (len.%s %s) (gs.len %s)) (not (isnil.%s %s)))", ts, r.S, tm.S, ts, r.S), SBool, nil})
			if vc.ss.sortOf(si.Elem) == SInt {
				b, _ := vc.underlying(si.Elem).(*types.Basic)
				if b != nil && b.Kind() == types.Uint8 {
					vc.assume(tBool(true), Term{fmt.Sprintf("(forall ((k! Int)) (! (=> (and (<= 0 k!) (< k! (gs.len %s))) (= (select (arr.%s %s) k!) (gs.at %s k!))) :pattern ((select (arr.%s %s) k!))))", tm.S, ts, r.S, tm.S, ts, r.S), SBool, nil})
				}
			}
			return r
		}
	case tm.Sort == SReal || ts == SReal:
		vc.unsupportedf(call.Pos(), "floating point conversion")
		return vc.unknown("fconv", to)
	}
	if si := vc.ss.info[ts]; si != nil && si.Kind == "iface" {
		return vc.convertTo(tm, from, to, call.Pos())
	}
	if ts == SErr {
		return vc.convertTo(tm, from, to, call.Pos())
	}
	// pointer to pointer with identical underlying struct types: (*T2)(p)
	if a, b := vc.ss.info[tm.Sort], vc.ss.info[ts]; a != nil && b != nil && a.Kind == "ptr" && b.Kind == "ptr" {
		as, bs := vc.ss.info[vc.ss.sortOf(a.Elem)], vc.ss.info[vc.ss.sortOf(b.Elem)]
		if as != nil && bs != nil && as.Kind == "struct" && bs.Kind == "struct" && len(as.Fields) == len(bs.Fields) {
			okFields := true
			var parts []string
			inner := fmt.Sprintf("(val.%s %s)", tm.Sort, tm.S)
			for i, f := range as.Fields {
				if bs.Fields[i].Sort != f.Sort {
					okFields = false
					break
				}
				parts = append(parts, fmt.Sprintf("(%s.%s %s)", as.Name, f.Name, inner))
			}
			if okFields {
				mkv := fmt.Sprintf("mk.%s", bs.Name)
				if len(parts) > 0 {
					mkv = fmt.Sprintf("(mk.%s %s)", bs.Name, strings.Join(parts, " "))
				}
				return vc.define("pconv", Term{fmt.Sprintf("(ite ((_ is nil.%s) %s) nil.%s (ref.%s %s))", tm.Sort, tm.S, ts, ts, mkv), ts, to})
			}
		}
	}
	// struct to struct with identical underlying types
	if a, b := vc.ss.info[tm.Sort], vc.ss.info[ts]; a != nil && b != nil && a.Kind == "struct" && b.Kind == "struct" && len(a.Fields) == len(b.Fields) {
		var parts []string
		for i, f := range a.Fields {
			if b.Fields[i].Sort != f.Sort {
				parts = nil
				break
			}
			parts = append(parts, fmt.Sprintf("(%s.%s %s)", tm.Sort, f.Name, tm.S))
		}
		if parts != nil {
			if len(parts) == 0 {
				return Term{fmt.Sprintf("mk.%s", ts), ts, to}
			}
			return Term{fmt.Sprintf("(mk.%s %s)", ts, strings.Join(parts, " ")), ts, to}
		}
	}
	if a, b := vc.ss.info[tm.Sort], vc.ss.info[ts]; a != nil && b != nil {
		vc.unsupportedf(call.Pos(), "conversion %s -> %s (%s %v / %s %v)", tm.Sort, ts, a.Kind, a.Fields, b.Kind, b.Fields)
	} else {
		vc.unsupportedf(call.Pos(), "conversion %s -> %s", tm.Sort, ts)
	}
	return vc.unknown("conv", to)
}

const pow10Decl = `(declare-fun pow10.other (Int) Int)
(define-fun pow10 ((n Int)) Int (ite (= n 0) 1 (ite (= n 1) 10 (ite (= n 2) 100 (ite (= n 3) 1000 (ite (= n 4) 10000 (ite (= n 5) 100000 (ite (= n 6) 1000000 (ite (= n 7) 10000000 (ite (= n 8) 100000000 (ite (= n 9) 1000000000 (ite (= n 10) 10000000000 (ite (= n 11) 100000000000 (ite (= n 12) 1000000000000 (ite (= n 13) 10000000000000 (ite (= n 14) 100000000000000 (ite (= n 15) 1000000000000000 (ite (= n 16) 10000000000000000 (ite (= n 17) 100000000000000000 (ite (= n 18) 1000000000000000000 (pow10.other n)))))))))))))))))))))`

func (vc *VC) evalBuiltin(name string, call *ast.CallExpr, st *State) []Value {
	pos := call.Pos()
	switch name {
	case "len", "cap":
		v := vc.term(vc.evalExpr(call.Args[0], st), pos)
		t := vc.typeOf(call.Args[0])
		if pt, ok := vc.underlying(t).(*types.Pointer); ok {
			v = vc.deref(v, st, pos)
			t = pt.Elem()
		}
		return []Value{vc.lenOf(v, t, name == "cap", pos)}
	case "append":
		base := vc.term(vc.evalExpr(call.Args[0], st), pos)
		bt := vc.typeOf(call)
		base = vc.convertTo(base, nil, bt, pos)
		sl, ok := vc.underlying(bt).(*types.Slice)
		if !ok {
			vc.unsupportedf(pos, "append on %v", bt)
			return []Value{vc.unknown("app", bt)}
		}
		s := base.Sort
		if call.Ellipsis != token.NoPos {
			other := vc.term(vc.evalExpr(call.Args[1], st), pos)
			if other.Sort == SStr {
				// append([]byte, string...)
				res := vc.freshOfSort("app", s, bt)
				vc.assume(tBool(true), Term{fmt.Sprintf("(and (= (len.%s %s) (+ (len.%s %s) (gs.len %s))) (not (isnil.%s %s)))", s, res.S, s, base.S, other.S, s, res.S), SBool, nil})
				vc.assume(tBool(true), Term{fmt.Sprintf("(forall ((k! Int)) (! (= (select (arr.%s %s) k!) (ite (< k! (len.%s %s)) (select (arr.%s %s) k!) (gs.at %s (- k! (len.%s %s))))) :pattern ((select (arr.%s %s) k!))))", s, res.S, s, base.S, s, base.S, other.S, s, base.S, s, res.S), SBool, nil})
				return []Value{res}
			}
			res := vc.freshOfSort("app", s, bt)
			vc.assume(tBool(true), Term{fmt.Sprintf("(and (= (len.%s %s) (+ (len.%s %s) (len.%s %s))) (= (isnil.%s %s) (and (isnil.%s %s) (= (len.%s %s) 0))))", s, res.S, s, base.S, s, other.S, s, res.S, s, base.S, s, other.S), SBool, nil})
			vc.assume(tBool(true), Term{fmt.Sprintf("(forall ((k! Int)) (! (= (select (arr.%s %s) k!) (ite (< k! (len.%s %s)) (select (arr.%s %s) k!) (select (arr.%s %s) (- k! (len.%s %s))))) :pattern ((select (arr.%s %s) k!))))", s, res.S, s, base.S, s, base.S, s, other.S, s, base.S, s, res.S), SBool, nil})
			return []Value{res}
		}
		base = vc.define("ab", base)
		arr := fmt.Sprintf("(arr.%s %s)", s, base.S)
		n := 0
		for _, a := range call.Args[1:] {
			v := vc.term(vc.evalExpr(a, st), pos)
			v = vc.convertTo(v, vc.typeOf(a), sl.Elem(), pos)
			arr = fmt.Sprintf("(store %s (+ (len.%s %s) %d) %s)", arr, s, base.S, n, v.S)
			n++
		}
		if n == 0 {
			return []Value{base}
		}
		return []Value{vc.define("app", Term{fmt.Sprintf("(mk.%s (+ (len.%s %s) %d) %s false)", s, s, base.S, n, arr), s, bt})}
	case "make":
		t := vc.typeOf(call)
		switch u := vc.underlying(t).(type) {
		case *types.Slice:
			s := vc.ss.sortOf(t)
			n := vc.term(vc.evalExpr(call.Args[1], st), pos)
			if vc.safety {
				vc.oblige("safe:make", "", pos, st.pc, Term{fmt.Sprintf("(>= %s 0)", n.S), SBool, nil}, "make length non-negative")
			}
			if len(call.Args) > 2 {
				c := vc.term(vc.evalExpr(call.Args[2], st), pos)
				if vc.safety {
					vc.oblige("safe:make", "", pos, st.pc, Term{fmt.Sprintf("(>= %s %s)", c.S, n.S), SBool, nil}, "make capacity >= length")
				}
			}
			es := vc.ss.sortOf(u.Elem())
			return []Value{Term{fmt.Sprintf("(mk.%s %s ((as const (Array Int %s)) %s) false)", s, n.S, es, vc.ss.zero(u.Elem()).S), s, t}}
		case *types.Map:
			if len(call.Args) > 1 {
				n := vc.term(vc.evalExpr(call.Args[1], st), pos)
				_ = n // a negative size hint panics only for constant arguments
			}
			return []Value{vc.emptyMap(vc.ss.sortOf(t), u)}
		}
		vc.unsupportedf(pos, "make of %v", t)
		return []Value{vc.unknown("make", t)}
	case "new":
		t := vc.typeOf(call)
		pt := vc.underlying(t).(*types.Pointer)
		ps := vc.ss.sortOf(t)
		if si := vc.ss.info[ps]; si != nil && si.Kind == "ptr" {
			return []Value{Term{fmt.Sprintf("(ref.%s %s)", ps, vc.ss.zero(pt.Elem()).S), ps, t}}
		}
		return []Value{vc.unknown("new", t)}
	case "delete":
		m := vc.term(vc.evalExpr(call.Args[0], st), pos)
		k := vc.term(vc.evalExpr(call.Args[1], st), pos)
		if mt, ok := vc.underlying(vc.typeOf(call.Args[0])).(*types.Map); ok {
			k = vc.convertTo(k, vc.typeOf(call.Args[1]), mt.Key(), pos)
		}
		vc.store(call.Args[0], st, vc.define("del", vc.mapDel(m, k)))
		return nil
	case "copy":
		dst := vc.term(vc.evalExpr(call.Args[0], st), pos)
		src := vc.term(vc.evalExpr(call.Args[1], st), pos)
		s := dst.Sort
		srcLen := fmt.Sprintf("(len.%s %s)", src.Sort, src.S)
		srcAt := func(k string) string { return fmt.Sprintf("(select (arr.%s %s) %s)", src.Sort, src.S, k) }
		if src.Sort == SStr {
			srcLen = fmt.Sprintf("(gs.len %s)", src.S)
			srcAt = func(k string) string { return fmt.Sprintf("(gs.at %s %s)", src.S, k) }
		}
		n := vc.define("ncopy", Term{fmt.Sprintf("(ite (< (len.%s %s) %s) (len.%s %s) %s)", s, dst.S, srcLen, s, dst.S, srcLen), SInt, types.Typ[types.Int]})
		res := vc.freshOfSort("copied", s, dst.T)
		vc.assume(tBool(true), Term{fmt.Sprintf("(and (= (len.%s %s) (len.%s %s)) (= (isnil.%s %s) (isnil.%s %s)))", s, res.S, s, dst.S, s, res.S, s, dst.S), SBool, nil})
		vc.assume(tBool(true), Term{fmt.Sprintf("(forall ((k! Int)) (! (= (select (arr.%s %s) k!) (ite (and (<= 0 k!) (< k! %s)) %s (select (arr.%s %s) k!))) :pattern ((select (arr.%s %s) k!))))", s, res.S, n.S, srcAt("k!"), s, dst.S, s, res.S), SBool, nil})
		vc.storeSliceArg(call.Args[0], res, st)
		return []Value{n}
	case "panic":
		for _, a := range call.Args {
			vc.evalExprNoSafety(a, st)
		}
		if vc.safety {
			vc.oblige("safe:panic-unreachable", "", pos, st.pc, tBool(false), "explicit panic is unreachable")
		}
		st.pc = tBool(false)
		return nil
	case "min", "max":
		acc := vc.term(vc.evalExpr(call.Args[0], st), pos)
		for _, a := range call.Args[1:] {
			b := vc.term(vc.evalExpr(a, st), pos)
			op := "<"
			if name == "max" {
				op = ">"
			}
			acc = Term{fmt.Sprintf("(ite (%s %s %s) %s %s)", op, acc.S, b.S, acc.S, b.S), acc.Sort, vc.typeOf(call)}
		}
		return []Value{acc}
	case "clear":
		t := vc.typeOf(call.Args[0])
		if mt, ok := vc.underlying(t).(*types.Map); ok {
			vc.store(call.Args[0], st, vc.emptyMap(vc.ss.sortOf(t), mt))
			return nil
		}
	case "print", "println":
		return nil
	}
	vc.unsupportedf(pos, "builtin %s", name)
	var rt types.Type
	if tv, ok := vc.cur().info.Types[call]; ok {
		rt = tv.Type
	}
	if rt == nil {
		return nil
	}
	return []Value{vc.unknown(name, rt)}
}

// storeSliceArg writes the new contents of a slice after copy(dst, ...):
// dst may be a slice expression s[a:b], in which case the enclosing slice is
// updated (not modelled precisely: havoced contents, same length).
func (vc *VC) storeSliceArg(e ast.Expr, nv Term, st *State) {
	save := vc.safety
	vc.safety = false
	defer func() { vc.safety = save }()
	switch x := ast.Unparen(e).(type) {
	case *ast.SliceExpr:
		base := vc.term(vc.evalExpr(x.X, st), x.Pos())
		res := vc.freshOfSort("copied", base.Sort, base.T)
		vc.assume(tBool(true), Term{fmt.Sprintf("(and (= (len.%s %s) (len.%s %s)) (= (isnil.%s %s) (isnil.%s %s)))", base.Sort, res.S, base.Sort, base.S, base.Sort, res.S, base.Sort, base.S), SBool, nil})
		vc.storeSliceArg(x.X, res, st)
	case *ast.Ident, *ast.SelectorExpr, *ast.IndexExpr:
		vc.store(x, st, nv)
	}
}

func (vc *VC) lenOf(v Term, t types.Type, isCap bool, pos token.Pos) Term {
	it := types.Typ[types.Int]
	switch v.Sort {
	case SStr:
		return Term{fmt.Sprintf("(gs.len %s)", v.S), SInt, it}
	}
	si := vc.ss.info[v.Sort]
	if si != nil {
		switch si.Kind {
		case "slice":
			if isCap {
				c := vc.capTerm(v)
				c.T = it
				return c
			}
			return Term{fmt.Sprintf("(len.%s %s)", v.Sort, v.S), SInt, it}
		case "map":
			return Term{fmt.Sprintf("(card.%s %s)", v.Sort, v.S), SInt, it}
		}
	}
	if at, ok := vc.underlying(t).(*types.Array); ok {
		return tInt(at.Len())
	}
	vc.unsupportedf(pos, "len of sort %s", v.Sort)
	return vc.unknown("len", it)
}

// evalKnown: library functions with exact models.
func (vc *VC) evalKnown(key string, callee *types.Func, recv Value, call *ast.CallExpr, st *State) ([]Value, bool) {
	pos := call.Pos()
	if vals, ok := vc.evalHasher(key, call, st); ok {
		return vals, true
	}
	switch key {
	case "fmt.Errorf":
		return []Value{vc.newError(call, st, true)}, true
	case "errors.New":
		vc.evalExprNoSafety(call.Args[0], st)
		e := vc.freshOfSort("err", SErr, callee.Type().(*types.Signature).Results().At(0).Type())
		vc.assume(tBool(true), Term{fmt.Sprintf("(not (= %s err.nil))", e.S), SBool, nil})
		vc.assume(tBool(true), Term{fmt.Sprintf("(forall ((y! Err)) (! (= (err.is %s y!) (= y! %s)) :pattern ((err.is %s y!))))", e.S, e.S, e.S), SBool, nil})
		return []Value{e}, true
	case "errors.Is":
		a := vc.term(vc.evalExpr(call.Args[0], st), pos)
		b := vc.term(vc.evalExpr(call.Args[1], st), pos)
		return []Value{Term{fmt.Sprintf("(err.is %s %s)", a.S, b.S), SBool, types.Typ[types.Bool]}}, true
	case "errors.Join":
		if call.Ellipsis != token.NoPos && len(call.Args) == 1 {
			// errors.Join(errs...): nil iff every element is nil; wraps every non-nil element
			sl := vc.term(vc.evalExpr(call.Args[0], st), pos)
			if si := vc.ss.info[sl.Sort]; si != nil && si.Kind == "slice" {
				e := vc.freshOfSort("joined", SErr, nil)
				in := fmt.Sprintf("(and (<= 0 j!) (< j! (len.%s %s)) (not (= (select (arr.%s %s) j!) err.nil))", sl.Sort, sl.S, sl.Sort, sl.S)
				vc.assume(tBool(true), Term{fmt.Sprintf("(= (not (= %s err.nil)) (exists ((j! Int)) %s)))", e.S, in), SBool, nil})
				vc.assume(tBool(true), Term{fmt.Sprintf("(forall ((y! Err)) (! (=> (not (= %s err.nil)) (= (err.is %s y!) (or (= y! %s) (exists ((j! Int)) %s (err.is (select (arr.%s %s) j!) y!)))))) :pattern ((err.is %s y!))))", e.S, e.S, e.S, in, sl.Sort, sl.S, e.S), SBool, nil})
				return []Value{e}, true
			}
		}
		var parts []Term
		for _, a := range call.Args {
			parts = append(parts, vc.term(vc.evalExpr(a, st), pos))
		}
		e := vc.freshOfSort("joined", SErr, nil)
		var nonnil, is []string
		for _, p := range parts {
			nonnil = append(nonnil, fmt.Sprintf("(not (= %s err.nil))", p.S))
			is = append(is, fmt.Sprintf("(and (not (= %s err.nil)) (err.is %s y!))", p.S, p.S))
		}
		vc.assume(tBool(true), Term{fmt.Sprintf("(= (not (= %s err.nil)) (or %s))", e.S, strings.Join(nonnil, " ")), SBool, nil})
		vc.assume(tBool(true), Term{fmt.Sprintf("(forall ((y! Err)) (! (=> (not (= %s err.nil)) (= (err.is %s y!) (or (= y! %s) %s))) :pattern ((err.is %s y!))))", e.S, e.S, e.S, strings.Join(is, " "), e.S), SBool, nil})
		return []Value{e}, true
	case "fmt.Sprintf":
		// a deterministic, otherwise unknown function of the format and operands
		if tv, ok := vc.cur().info.Types[call.Args[0]]; ok && tv.Value != nil && tv.Value.Kind() == constant.String {
			var args []Term
			okArgs := true
			for _, a := range call.Args[1:] {
				v, isT := vc.evalExprNoSafety(a, st).(Term)
				if !isT {
					okArgs = false
					break
				}
				args = append(args, v)
			}
			if okArgs {
				return []Value{vc.fmtFn(constant.StringVal(tv.Value), args)}, true
			}
		}
		for _, a := range call.Args {
			vc.evalExprNoSafety(a, st)
		}
		return []Value{vc.freshOfSort("fmt", SStr, types.Typ[types.String])}, true
	case "fmt.Sprint", "fmt.Sprintln":
		for _, a := range call.Args {
			vc.evalExprNoSafety(a, st)
		}
		return []Value{vc.freshOfSort("fmt", SStr, types.Typ[types.String])}, true
	case "cmp.Compare":
		a := vc.term(vc.evalExpr(call.Args[0], st), pos)
		b := vc.term(vc.evalExpr(call.Args[1], st), pos)
		if a.Sort == SInt {
			return []Value{Term{fmt.Sprintf("(ite (< %s %s) (- 1) (ite (> %s %s) 1 0))", a.S, b.S, a.S, b.S), SInt, types.Typ[types.Int]}}, true
		}
	case "slices.Collect":
		// slices.Collect(maps.Values(m)): the values of m, one per key, in an arbitrary order:
		// position i holds m[keyAt(i)] for an injective keyAt onto the keys of m
		if inner, ok := ast.Unparen(call.Args[0]).(*ast.CallExpr); ok {
			if fn := vc.calleeOf(inner); fn != nil && fn.Pkg() != nil && fn.Pkg().Path() == "maps" && fn.Name() == "Values" && len(inner.Args) == 1 {
				m := vc.term(vc.evalExpr(inner.Args[0], st), pos)
				rt := vc.typeOf(call)
				if si := vc.ss.info[m.Sort]; si != nil && si.Kind == "map" && rt != nil {
					r := vc.freshConst("vals", rt)
					rs := r.Sort
					ks := vc.ss.sortOf(si.Key)
					vc.assume(tBool(true), Term{fmt.Sprintf("(and (= (len.%s %s) (card.%s %s)) (= (isnil.%s %s) (= (card.%s %s) 0)))", rs, r.S, m.Sort, m.S, rs, r.S, m.Sort, m.S), SBool, nil})
					keyAt, idx := "keyAt."+r.S, "idx."+r.S
					vc.decls = append(vc.decls, fmt.Sprintf("(declare-fun %s (Int) %s)", keyAt, ks), fmt.Sprintf("(declare-fun %s (%s) Int)", idx, ks))
					vc.assume(tBool(true), Term{fmt.Sprintf("(forall ((i! Int)) (! (=> (and (<= 0 i!) (< i! (len.%s %s))) (and (select (has.%s %s) (%s i!)) (= (%s (%s i!)) i!) (= (select (arr.%s %s) i!) (select (get.%s %s) (%s i!))))) :pattern ((select (arr.%s %s) i!)) :pattern ((%s i!))))", rs, r.S, m.Sort, m.S, keyAt, idx, keyAt, rs, r.S, m.Sort, m.S, keyAt, rs, r.S, keyAt), SBool, nil})
					vc.assume(tBool(true), Term{fmt.Sprintf("(forall ((k! %s)) (! (=> (select (has.%s %s) k!) (and (<= 0 (%s k!)) (< (%s k!) (len.%s %s)) (= (%s (%s k!)) k!))) :pattern ((select (has.%s %s) k!))))", ks, m.Sort, m.S, idx, idx, rs, r.S, keyAt, idx, m.Sort, m.S), SBool, nil})
					return []Value{r}, true
				}
			}
		}
		// slices.Collect(maps.Keys(m)): the keys of m, each exactly once, in an arbitrary order
		if inner, ok := ast.Unparen(call.Args[0]).(*ast.CallExpr); ok {
			if fn := vc.calleeOf(inner); fn != nil && fn.Pkg() != nil && fn.Pkg().Path() == "maps" && fn.Name() == "Keys" && len(inner.Args) == 1 {
				m := vc.term(vc.evalExpr(inner.Args[0], st), pos)
				rt := vc.typeOf(call)
				if si := vc.ss.info[m.Sort]; si != nil && si.Kind == "map" && rt != nil {
					r := vc.freshConst("keys", rt)
					rs := r.Sort
					ks := vc.ss.sortOf(si.Key)
					vc.assume(tBool(true), Term{fmt.Sprintf("(and (= (len.%s %s) (card.%s %s)) (= (isnil.%s %s) (= (card.%s %s) 0)))", rs, r.S, m.Sort, m.S, rs, r.S, m.Sort, m.S), SBool, nil})
					vc.assume(tBool(true), Term{fmt.Sprintf("(forall ((i! Int)) (! (=> (and (<= 0 i!) (< i! (len.%s %s))) (select (has.%s %s) (select (arr.%s %s) i!))) :pattern ((select (arr.%s %s) i!))))", rs, r.S, m.Sort, m.S, rs, r.S, rs, r.S), SBool, nil})
					idx := "idx." + r.S
					vc.decls = append(vc.decls, fmt.Sprintf("(declare-fun %s (%s) Int)", idx, ks))
					vc.assume(tBool(true), Term{fmt.Sprintf("(forall ((k! %s)) (! (=> (select (has.%s %s) k!) (and (<= 0 (%s k!)) (< (%s k!) (len.%s %s)) (= (select (arr.%s %s) (%s k!)) k!))) :pattern ((select (has.%s %s) k!))))", ks, m.Sort, m.S, idx, idx, rs, r.S, rs, r.S, idx, m.Sort, m.S), SBool, nil})
					vc.assume(tBool(true), Term{fmt.Sprintf("(forall ((i! Int) (j! Int)) (! (=> (and (<= 0 i!) (< i! j!) (< j! (len.%s %s))) (not (= (select (arr.%s %s) i!) (select (arr.%s %s) j!)))) :pattern ((select (arr.%s %s) i!) (select (arr.%s %s) j!))))", rs, r.S, rs, r.S, rs, r.S, rs, r.S, rs, r.S), SBool, nil})
					return []Value{r}, true
				}
			}
		}
	case "strings.Compare":
		// -1 / 0 / +1 by the byte-wise order gs.lt
		a := vc.term(vc.evalExpr(call.Args[0], st), pos)
		b := vc.term(vc.evalExpr(call.Args[1], st), pos)
		if a.Sort == SStr && b.Sort == SStr {
			vc.ss.declare(&sortInfo{Name: "str$lt", Kind: "const", Decl: strLtDecl})
			return []Value{Term{fmt.Sprintf("(ite (= %s %s) 0 (ite (gs.lt %s %s) (- 1) 1))", a.S, b.S, a.S, b.S), SInt, types.Typ[types.Int]}}, true
		}
	case "slices.SortFunc", "slices.SortStableFunc":
		// x is permuted in place so that cmp(x[i], x[j]) <= 0 for i < j. The
		// comparator is a closure: it is inlined once, on the elements at an
		// *arbitrary* pair of positions $si < $sj of the sorted slice (two fresh
		// constants), so whatever is proved about that pair holds for every pair.
		if len(call.Args) == 2 {
			cl, isCl := vc.evalExprNoSafety(call.Args[1], st).(*Closure)
			sl := vc.term(vc.evalExpr(call.Args[0], st), pos)
			si := vc.ss.info[sl.Sort]
			if isCl && si != nil && si.Kind == "slice" {
				nv := vc.freshOfSort("sorted", sl.Sort, sl.T)
				S := string(sl.Sort)
				vc.assume(st.pc, Term{fmt.Sprintf("(and (= (len.%s %s) (len.%s %s)) (= (isnil.%s %s) (isnil.%s %s)))", S, nv.S, S, sl.S, S, nv.S, S, sl.S), SBool, nil})
				// a permutation: position k of the result holds the element that was at
				// perm(k); inv is its inverse (so perm is a bijection of the positions)
				perm, inv := "perm."+nv.S, "inv."+nv.S
				vc.decls = append(vc.decls, fmt.Sprintf("(declare-fun %s (Int) Int)", perm), fmt.Sprintf("(declare-fun %s (Int) Int)", inv))
				vc.assume(st.pc, Term{fmt.Sprintf("(forall ((k! Int)) (! (=> (and (<= 0 k!) (< k! (len.%s %s))) (and (<= 0 (%s k!)) (< (%s k!) (len.%s %s)) (= (%s (%s k!)) k!) (= (select (arr.%s %s) k!) (select (arr.%s %s) (%s k!))))) :pattern ((select (arr.%s %s) k!)) :pattern ((%s k!))))", S, nv.S, perm, perm, S, nv.S, inv, perm, S, nv.S, S, sl.S, perm, S, nv.S, perm), SBool, nil})
				vc.assume(st.pc, Term{fmt.Sprintf("(forall ((k! Int)) (! (=> (and (<= 0 k!) (< k! (len.%s %s))) (and (<= 0 (%s k!)) (< (%s k!) (len.%s %s)) (= (%s (%s k!)) k!) (= (select (arr.%s %s) (%s k!)) (select (arr.%s %s) k!)))) :pattern ((%s k!)) :pattern ((select (arr.%s %s) k!))))", S, nv.S, inv, inv, S, nv.S, perm, inv, S, nv.S, inv, S, sl.S, inv, S, sl.S), SBool, nil})
				vc.storeSliceArg(call.Args[0], nv, st)
				gi := vc.freshOfSort("si", SInt, types.Typ[types.Int])
				gj := vc.freshOfSort("sj", SInt, types.Typ[types.Int])
				vc.assume(st.pc, Term{fmt.Sprintf("(and (<= 0 %s) (< %s %s) (< %s (len.%s %s)))", gi.S, gi.S, gj.S, gj.S, S, nv.S), SBool, nil})
				et := si.Elem
				ei := Term{fmt.Sprintf("(select (arr.%s %s) %s)", S, nv.S, gi.S), vc.ss.sortOf(et), et}
				ej := Term{fmt.Sprintf("(select (arr.%s %s) %s)", S, nv.S, gj.S), vc.ss.sortOf(et), et}
				save := vc.safety
				vc.safety = false
				cmpOf := func(a, b Term) (Term, bool) {
					rs := vc.inlineClosure(cl, []Value{a, b}, call, st)
					if len(rs) == 1 {
						if r, ok := rs[0].(Term); ok && r.Sort == SInt {
							return r, true
						}
					}
					return Term{}, false
				}
				// SortFunc orders its argument only if the comparator is a strict weak
				// ordering; with any other comparator the result is unspecified. The
				// comparator is therefore checked on three arbitrary elements
				// (obligation pre:slices.SortFunc) before the ordering is assumed.
				a3 := vc.unknown("cmpa", et)
				b3 := vc.unknown("cmpb", et)
				c3 := vc.unknown("cmpc", et)
				rab, ok1 := cmpOf(a3, b3)
				rba, ok2 := cmpOf(b3, a3)
				rbc, ok3 := cmpOf(b3, c3)
				rac, ok4 := cmpOf(a3, c3)
				if ok1 && ok2 && ok3 && ok4 {
					wf := fmt.Sprintf("(and (= (< %s 0) (> %s 0)) (=> (and (< %s 0) (< %s 0)) (< %s 0)) (=> (and (= %s 0) (= %s 0)) (= %s 0)) (=> (and (= %s 0) (< %s 0)) (< %s 0)) (=> (and (< %s 0) (= %s 0)) (< %s 0)))",
						rab.S, rba.S, rab.S, rbc.S, rac.S, rab.S, rbc.S, rac.S, rab.S, rbc.S, rac.S, rab.S, rbc.S, rac.S)
					vc.oblige("pre", "slices.SortFunc", pos, st.pc, Term{wf, SBool, nil}, "the comparator is a strict weak ordering (antisymmetric, transitive, with a transitive equivalence)")
				}
				if r, ok := cmpOf(ei, ej); ok && ok1 && ok2 && ok3 && ok4 {
					vc.assume(st.pc, Term{fmt.Sprintf("(<= %s 0)", r.S), SBool, nil})
				}
				vc.safety = save
				fr := vc.cur()
				if fr.ghosts == nil {
					fr.ghosts = map[string]Value{}
				}
				fr.ghosts["$si"], fr.ghosts["$sj"] = gi, gj
				return []Value{}, true
			}
		}
	case "slices.Clone":
		v := vc.term(vc.evalExpr(call.Args[0], st), pos)
		return []Value{v}, true
	case "maps.Clone":
		v := vc.term(vc.evalExpr(call.Args[0], st), pos)
		return []Value{v}, true
	case "slices.Contains":
		// some element equals v (element sorts with structural equality only)
		if len(call.Args) == 2 {
			sl := vc.term(vc.evalExpr(call.Args[0], st), pos)
			v := vc.term(vc.evalExpr(call.Args[1], st), pos)
			si := vc.ss.info[sl.Sort]
			if si != nil && si.Kind == "slice" {
				es := vc.ss.sortOf(si.Elem)
				ei := vc.ss.info[es]
				if es == v.Sort && (es == SStr || es == SInt || es == SBool || (ei != nil && ei.Kind == "struct")) {
					S := string(sl.Sort)
					return []Value{Term{fmt.Sprintf("(exists ((ci! Int)) (and (<= 0 ci!) (< ci! (len.%s %s)) (= (select (arr.%s %s) ci!) %s)))", S, sl.S, S, sl.S, v.S), SBool, types.Typ[types.Bool]}}, true
				}
			}
		}
	case "maps.Copy":
		// dst gets every entry of src (src wins on common keys); writing into a nil dst panics
		if len(call.Args) == 2 {
			dst := vc.term(vc.evalExpr(call.Args[0], st), pos)
			src := vc.term(vc.evalExpr(call.Args[1], st), pos)
			si := vc.ss.info[dst.Sort]
			if si != nil && si.Kind == "map" && src.Sort == dst.Sort {
				S := string(dst.Sort)
				ks := vc.ss.sortOf(si.Key)
				if vc.safety {
					vc.oblige("safe:nil-map-write", "", pos, st.pc, Term{fmt.Sprintf("(or (not (isnil.%s %s)) (= (card.%s %s) 0))", S, dst.S, S, src.S), SBool, nil}, "maps.Copy into a non-nil map (or nothing to copy)")
				}
				nv := vc.unknown("copied", vc.typeOf(call.Args[0]))
				vc.assume(st.pc, Term{fmt.Sprintf("(= (isnil.%s %s) (isnil.%s %s))", S, nv.S, S, dst.S), SBool, nil})
				vc.assume(st.pc, Term{fmt.Sprintf("(forall ((k! %s)) (! (= (select (has.%s %s) k!) (or (select (has.%s %s) k!) (select (has.%s %s) k!))) :pattern ((select (has.%s %s) k!))))", ks, S, nv.S, S, dst.S, S, src.S, S, nv.S), SBool, nil})
				vc.assume(st.pc, Term{fmt.Sprintf("(forall ((k! %s)) (! (= (select (get.%s %s) k!) (ite (select (has.%s %s) k!) (select (get.%s %s) k!) (select (get.%s %s) k!))) :pattern ((select (get.%s %s) k!))))", ks, S, nv.S, S, src.S, S, src.S, S, dst.S, S, nv.S), SBool, nil})
				vc.assume(st.pc, Term{fmt.Sprintf("(>= (card.%s %s) (card.%s %s))", S, nv.S, S, dst.S), SBool, nil})
				save := vc.safety
				vc.safety = false
				switch ast.Unparen(call.Args[0]).(type) {
				case *ast.Ident, *ast.SelectorExpr, *ast.IndexExpr:
					vc.store(ast.Unparen(call.Args[0]), st, nv)
				}
				vc.safety = save
				return []Value{}, true
			}
		}
	case "unicode.IsDigit":
		// on byte-range runes (Latin-1) exactly '0'..'9'
		r := vc.term(vc.evalExpr(call.Args[0], st), pos)
		fn := "unicode.IsDigit.wide"
		vc.ss.declare(&sortInfo{Name: Sort("fn$" + fn), Kind: "const", Decl: fmt.Sprintf("(declare-fun %s (Int) Bool)", fn)})
		return []Value{Term{fmt.Sprintf("(ite (and (<= 0 %s) (< %s 256)) (and (<= 48 %s) (<= %s 57)) (%s %s))", r.S, r.S, r.S, r.S, fn, r.S), SBool, types.Typ[types.Bool]}}, true
	}
	return nil, false
}

// fmtFn: fmt.Sprintf(format, args...) as an uninterpreted function per format
// string and operand sorts (deterministic; the text itself is not modelled).
func (vc *VC) fmtFn(format string, args []Term) Term {
	name := fmt.Sprintf("sprintf.%x", hashString(format))
	var sorts []string
	for _, a := range args {
		sorts = append(sorts, string(a.Sort))
		name += "." + sanitize(string(a.Sort))
	}
	vc.ss.declare(&sortInfo{Name: Sort("fn$" + name), Kind: "const", Decl: fmt.Sprintf("(declare-fun %s (%s) Str) ; %q", name, strings.Join(sorts, " "), format)})
	return Term{app(name, args...), SStr, types.Typ[types.String]}
}

// newError models fmt.Errorf: a fresh non-nil error whose Is-chain contains
// exactly itself and the chains of the %w operands.
func (vc *VC) newError(call *ast.CallExpr, st *State, isErrorf bool) Term {
	pos := call.Pos()
	var wrapped []Term
	format := ""
	if tv, ok := vc.cur().info.Types[call.Args[0]]; ok && tv.Value != nil && tv.Value.Kind() == constant.String {
		format = constant.StringVal(tv.Value)
	} else {
		vc.evalExprNoSafety(call.Args[0], st)
	}
	// map verbs to operands
	verbs := parseVerbs(format)
	for i, a := range call.Args[1:] {
		v := vc.evalExprNoSafety(a, st)
		if i < len(verbs) && verbs[i] == 'w' {
			if tm, ok := v.(Term); ok && tm.Sort == SErr {
				wrapped = append(wrapped, tm)
			}
		}
	}
	e := vc.freshOfSort("err", SErr, nil)
	vc.assume(tBool(true), Term{fmt.Sprintf("(not (= %s err.nil))", e.S), SBool, nil})
	alts := []string{fmt.Sprintf("(= y! %s)", e.S)}
	for _, w := range wrapped {
		alts = append(alts, fmt.Sprintf("(and (not (= %s err.nil)) (err.is %s y!))", w.S, w.S))
	}
	body := alts[0]
	if len(alts) > 1 {
		body = "(or " + strings.Join(alts, " ") + ")"
	}
	vc.assume(tBool(true), Term{fmt.Sprintf("(forall ((y! Err)) (! (= (err.is %s y!) %s) :pattern ((err.is %s y!))))", e.S, body, e.S), SBool, nil})
	_ = pos
	return e
}

func parseVerbs(format string) []byte {
	var out []byte
	for i := 0; i < len(format); i++ {
		if format[i] != '%' {
			continue
		}
		i++
		for i < len(format) && strings.ContainsRune("+-# 0123456789.[]*", rune(format[i])) {
			i++
		}
		if i < len(format) {
			if format[i] == '%' {
				continue
			}
			out = append(out, format[i])
		}
	}
	return out
}
