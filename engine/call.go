package main

// Calls: conversions, builtins, by contract, inlined, interface methods, closures.

import (
	"fmt"
	"go/ast"
	"go/token"
	"go/types"
	"strings"
)

const defaultInlineDepth = 3

func (vc *VC) evalCall(call *ast.CallExpr, st *State) []Value {
	info := vc.cur().info
	// conversion
	if tv, ok := info.Types[call.Fun]; ok && tv.IsType() {
		return []Value{vc.evalConversion(call, tv.Type, st)}
	}
	// builtin
	fun := ast.Unparen(call.Fun)
	if id, ok := fun.(*ast.Ident); ok {
		if _, isB := info.ObjectOf(id).(*types.Builtin); isB {
			return vc.evalBuiltin(id.Name, call, st)
		}
		// variable holding a function value
		if v, ok := info.ObjectOf(id).(*types.Var); ok {
			fv, has := st.vars[v]
			if !has && v.Parent() == v.Pkg().Scope() {
				return vc.havocCall(call, nil, st, "call through package-level function variable "+id.Name)
			}
			return vc.callValue(fv, call, st)
		}
	}
	callee := vc.calleeOf(call)
	if callee == nil {
		// call of a computed function value (field, call result, ...)
		fv := vc.evalExpr(call.Fun, st)
		return vc.callValue(fv, call, st)
	}
	var recvExpr ast.Expr
	var recv Value
	if se, ok := fun.(*ast.SelectorExpr); ok {
		if sel, ok := info.Selections[se]; ok && sel.Kind() == types.MethodVal {
			recvExpr = se.X
			recv = vc.evalExpr(se.X, st)
			// follow embedded-field path to the actual receiver
			if len(sel.Index()) > 1 {
				base := vc.term(recv, se.Pos())
				recv = vc.selectPath(base, sel.Recv(), sel.Index()[:len(sel.Index())-1], st, se.Pos())
				recvExpr = nil
			}
		}
	}
	var targs *types.TypeList
	if id := calleeIdent(fun); id != nil {
		if inst, ok := info.Instances[id]; ok {
			targs = inst.TypeArgs
		}
	}
	return vc.callFunc(callee, recv, recvExpr, call, targs, st)
}

func calleeIdent(fun ast.Expr) *ast.Ident {
	for {
		switch f := fun.(type) {
		case *ast.ParenExpr:
			fun = f.X
		case *ast.IndexExpr:
			fun = f.X
		case *ast.IndexListExpr:
			fun = f.X
		case *ast.Ident:
			return f
		case *ast.SelectorExpr:
			return f.Sel
		default:
			return nil
		}
	}
}

// callValue calls a function value held in a variable.
func (vc *VC) callValue(fv Value, call *ast.CallExpr, st *State) []Value {
	switch f := fv.(type) {
	case *Closure:
		args := vc.evalArgs(call, nil, st)
		return vc.inlineClosure(f, args, call, st)
	case *FuncRef:
		if f.Obj != nil {
			return vc.callFunc(f.Obj, f.Recv, f.RecvExpr, call, nil, st)
		}
	}
	return vc.havocCall(call, nil, st, "call of unknown function value")
}

func (vc *VC) evalArgs(call *ast.CallExpr, sig *types.Signature, st *State) []Value {
	var args []Value
	if len(call.Args) == 1 && sig != nil && sig.Params().Len() > 1 {
		// f(g()) with multi-value g
		if tv, ok := vc.cur().info.Types[call.Args[0]]; ok {
			if tup, isTup := tv.Type.(*types.Tuple); isTup && tup.Len() > 1 {
				return vc.evalMulti(call.Args[0], st, tup.Len())
			}
		}
	}
	for _, a := range call.Args {
		args = append(args, vc.evalExpr(a, st))
	}
	return args
}

// packVariadic turns the variadic tail into a slice value.
func (vc *VC) packVariadic(sig *types.Signature, args []Value, call *ast.CallExpr, st *State) []Value {
	if !sig.Variadic() {
		return args
	}
	np := sig.Params().Len()
	if call.Ellipsis != token.NoPos {
		return args
	}
	st2 := sig.Params().At(np - 1).Type().(*types.Slice)
	s := vc.ss.sortOf(st2)
	es := vc.ss.sortOf(st2.Elem())
	arr := fmt.Sprintf("((as const (Array Int %s)) %s)", es, vc.ss.zero(st2.Elem()).S)
	n := 0
	for i := np - 1; i < len(args); i++ {
		v := vc.term(args[i], call.Pos())
		var from types.Type
		if i < len(call.Args) {
			from = vc.typeOf(call.Args[i])
		}
		v = vc.convertTo(v, from, st2.Elem(), call.Pos())
		arr = fmt.Sprintf("(store %s %d %s)", arr, n, v.S)
		n++
	}
	var packed Term
	if n == 0 {
		packed = vc.ss.zeroOfSort(s, st2)
	} else {
		packed = vc.define("va", Term{fmt.Sprintf("(mk.%s %d %s false)", s, n, arr), s, st2})
	}
	out := append([]Value{}, args[:min(np-1, len(args))]...)
	return append(out, packed)
}

func (vc *VC) callFunc(callee *types.Func, recv Value, recvExpr ast.Expr, call *ast.CallExpr, targs *types.TypeList, st *State) []Value {
	sig := callee.Type().(*types.Signature)
	key := funcObjKey(callee)
	// special-cased library functions with exact models
	if vals, ok := vc.evalKnown(key, callee, recv, call, st); ok {
		return vals
	}
	// interface method?
	if sig.Recv() != nil {
		if _, isI := vc.underlying(sig.Recv().Type()).(*types.Interface); isI {
			if callee.Name() == "Unwrap" && sig.Params().Len() == 0 && sig.Results().Len() == 1 {
				// the multi-error convention of package errors (errors.Join): Unwrap()
				// []error lists the wrapped errors, none of them nil, at least one.
				// Assumed (listed in the trusted base).
				if sl, ok := sig.Results().At(0).Type().(*types.Slice); ok && vc.ss.sortOf(sl.Elem()) == SErr {
					r := vc.freshConst("unwrapped", sig.Results().At(0).Type())
					vc.assume(st.pc, Term{fmt.Sprintf("(and (> (len.%s %s) 0) (forall ((j! Int)) (=> (and (<= 0 j!) (< j! (len.%s %s))) (not (= (select (arr.%s %s) j!) err.nil)))))", r.Sort, r.S, r.Sort, r.S, r.Sort, r.S), SBool, nil})
					vc.axiomsUsed = append(vc.axiomsUsed, "assumed: Unwrap() []error has no nil entries")
					return []Value{r}
				}
			}
			args := vc.packVariadic(sig, vc.evalArgs(call, sig, st), call, st)
			return vc.ifaceCall(callee, key, vc.term(recv, call.Pos()), args, call, st)
		}
	}
	args := vc.packVariadic(sig, vc.evalArgs(call, sig, st), call, st)
	if sig.Recv() != nil && recv == nil && len(args) == sig.Params().Len()+1 {
		// method expression T.m(recv, args...) or a method value held in a variable
		recv, args = args[0], args[1:]
		shifted := *call
		shifted.Args = call.Args[1:]
		recvExpr = call.Args[0]
		if tv, ok := vc.cur().info.Types[call]; ok {
			vc.cur().info.Types[&shifted] = tv
		}
		call = &shifted
	}
	fc := vc.w.cs.Funcs[key]
	fi := vc.w.byObj[callee]
	if fi == nil {
		// generic method instantiations have distinct *types.Func objects
		if o := callee.Origin(); o != nil {
			fi = vc.w.byObj[o]
		}
	}
	if fc != nil && fc.Implicit && !fc.Inline {
		// swept function without clauses: verified separately for all inputs;
		// here only its effects are over-approximated
		return vc.havocCall(call, callee, st, "")
	}
	if fc != nil && !fc.Inline {
		vc.contractCalls[key] = true
		return vc.callByContract(fc, callee, sig, recv, recvExpr, args, call, st)
	}
	if fi != nil && fi.Decl.Body != nil {
		depth := len(vc.frames)
		maxd := defaultInlineDepth
		if vc.fc != nil && vc.fc.CallDepth > 0 {
			maxd = vc.fc.CallDepth
		}
		recursive := false
		for _, fr := range vc.frames {
			if fr.fi == fi {
				recursive = true
			}
		}
		if vc.fc != nil {
			for _, ni := range vc.fc.NoInline {
				if strings.HasSuffix(key, "."+ni) {
					recursive = true // treated like recursion: not inlined
				}
			}
		}
		// in a safety sweep only small loop-free helpers are inlined: larger
		// callees are swept (or havoced) on their own
		if vc.fc != nil && vc.fc.Safety && len(vc.fc.Ensures) <= 1 && !(fc != nil && fc.Inline) && !smallBody(fi) {
			recursive = true
		}
		if !recursive && (depth <= maxd || (fc != nil && fc.Inline)) {
			vc.inlinedCalls[key] = true
			return vc.inlineFunc(fi, fc, recv, recvExpr, args, call, targs, st)
		}
	}
	return vc.havocCall(call, callee, st, "")
}

// havocCall: unknown callee. Results are fresh; variables reachable through
// pointer arguments are havoced.
func (vc *VC) havocCall(call *ast.CallExpr, callee *types.Func, st *State, why string) []Value {
	name := vc.src(call.Fun)
	if callee != nil {
		name = funcObjKey(callee)
	}
	vc.havocCalls[name] = true
	info := vc.cur().info
	// p.M() with M declared on the value type dereferences p
	if se, ok := ast.Unparen(call.Fun).(*ast.SelectorExpr); ok && vc.safety {
		if sel, ok := info.Selections[se]; ok && sel.Kind() == types.MethodVal {
			if s2, ok := sel.Obj().Type().(*types.Signature); ok && s2.Recv() != nil {
				_, recvIsPtr := s2.Recv().Type().(*types.Pointer)
				_, isIface := vc.underlying(s2.Recv().Type()).(*types.Interface)
				if xt := vc.typeOf(se.X); xt != nil && !recvIsPtr && !isIface {
					if _, argIsPtr := vc.underlying(xt).(*types.Pointer); argIsPtr {
						save := vc.safety
						p := vc.term(vc.evalExprNoSafety(se.X, st), se.X.Pos())
						vc.safety = save
						vc.deref(p, st, se.X.Pos())
					}
				}
			}
		}
	}
	for i, a := range call.Args {
		at := vc.typeOf(a)
		if at == nil {
			continue
		}
		switch vc.underlying(at).(type) {
		case *types.Pointer:
			vc.havocLvalue(a, st)
		case *types.Map, *types.Slice, *types.Struct:
			// a callee that is neither inlined nor under contract may write the
			// entries of a map or the elements of a slice it is handed
			// (maps.DeleteFunc, maps.Copy, a helper that fills a map), also when
			// they sit in a struct handed over by value; which callees do not is
			// taken from the frame checker's summaries
			if vc.calleeMayWriteArg(callee, i) {
				vc.havocContents(a, st)
			}
		}
	}
	// the same for the receiver of a value-receiver method (a named map type, a
	// struct holding a map)
	if se, ok := ast.Unparen(call.Fun).(*ast.SelectorExpr); ok && callee != nil {
		if sel, ok := info.Selections[se]; ok && sel.Kind() == types.MethodVal {
			if s2, ok := sel.Obj().Type().(*types.Signature); ok && s2.Recv() != nil {
				if _, isPtr := s2.Recv().Type().(*types.Pointer); !isPtr {
					switch vc.underlying(s2.Recv().Type()).(type) {
					case *types.Map, *types.Slice, *types.Struct:
						if vc.calleeMayWriteArg(callee, -1) {
							vc.havocContents(se.X, st)
						}
					}
				}
			}
		}
	}
	if se, ok := ast.Unparen(call.Fun).(*ast.SelectorExpr); ok {
		if sel, ok := info.Selections[se]; ok && sel.Kind() == types.MethodVal {
			if s2, ok := sel.Obj().Type().(*types.Signature); ok && s2.Recv() != nil {
				if _, isPtr := s2.Recv().Type().(*types.Pointer); isPtr {
					// a repository method that the frame checker knows not to write through
					// its receiver (a Validator's read-only methods) leaves *recv as it is
					if callee == nil || vc.w.funcs[funcObjKey(callee)] == nil || vc.calleeMayWriteArg(callee, -1) {
						vc.havocLvalue(se.X, st)
					}
				}
			}
		}
	}
	var rt types.Type
	if tv, ok := info.Types[call]; ok {
		rt = tv.Type
	}
	if rt == nil {
		return nil
	}
	if tup, ok := rt.(*types.Tuple); ok {
		var out []Value
		for i := 0; i < tup.Len(); i++ {
			out = append(out, vc.unknown("r", tup.At(i).Type()))
		}
		return out
	}
	return []Value{vc.unknown("r", rt)}
}

func (vc *VC) havocLvalue(e ast.Expr, st *State) {
	e = ast.Unparen(e)
	if u, ok := e.(*ast.UnaryExpr); ok && u.Op == token.AND {
		e = u.X
	}
	t := vc.typeOf(e)
	if t == nil {
		return
	}
	switch e.(type) {
	case *ast.Ident, *ast.SelectorExpr, *ast.IndexExpr, *ast.StarExpr:
		save := vc.safety
		vc.safety = false
		nv := vc.unknown("hv", t)
		if p, ok := vc.underlying(t).(*types.Pointer); ok {
			// the pointer itself is unchanged; only the pointee is havoced
			old := vc.term(vc.evalExpr(e, st), e.Pos())
			if si := vc.ss.info[old.Sort]; si != nil && si.Kind == "ptr" {
				inner := vc.unknown("hv", p.Elem())
				nv = tIte(Term{fmt.Sprintf("((_ is ref.%s) %s)", old.Sort, old.S), SBool, nil},
					Term{fmt.Sprintf("(ref.%s %s)", old.Sort, inner.S), old.Sort, t}, old)
			}
		}
		vc.store(e, st, nv)
		vc.safety = save
	}
}

// ------------------------------------------------------------ by contract

func (vc *VC) paramNames(fc *FuncContract, sig *types.Signature) []string {
	var names []string
	for i := 0; i < sig.Params().Len(); i++ {
		n := sig.Params().At(i).Name()
		if (n == "" || n == "_") && fc != nil && i < len(fc.Params) {
			n = fc.Params[i]
		}
		if n == "" || n == "_" {
			n = fmt.Sprintf("p%d", i)
		}
		names = append(names, n)
	}
	return names
}

func (vc *VC) resultNames(fc *FuncContract, sig *types.Signature) []string {
	var names []string
	for i := 0; i < sig.Results().Len(); i++ {
		n := sig.Results().At(i).Name()
		if fc != nil && i < len(fc.Results) {
			n = fc.Results[i]
		}
		if n == "" || n == "_" {
			n = fmt.Sprintf("r%d", i)
		}
		names = append(names, n)
	}
	return names
}

func (vc *VC) callByContract(fc *FuncContract, callee *types.Func, sig *types.Signature, recv Value, recvExpr ast.Expr, args []Value, call *ast.CallExpr, st *State) []Value {
	pos := call.Pos()
	env := &SpecEnv{vars: map[string]Value{}, old: map[string]Value{}, pkg: fc.Pkg, vc: vc}
	saveT := vc.bindTypeArgs(callee, recv, call)
	defer vc.restoreTypeArgs(saveT)
	pnames := vc.paramNames(fc, sig)
	for i, n := range pnames {
		if i < len(args) {
			v := args[i]
			if tm, ok := v.(Term); ok {
				var from types.Type
				if i < len(call.Args) && len(call.Args) == len(args) {
					from = vc.typeOf(call.Args[i])
				}
				v = vc.convertTo(tm, from, sig.Params().At(i).Type(), pos)
			}
			env.vars[n] = v
			env.old[n] = v
		}
	}
	rname := ""
	var recvIsPtrParam bool
	if sig.Recv() != nil {
		rname = sig.Recv().Name()
		if rname == "" || rname == "_" {
			rname = "self"
		}
		rv := vc.term(recv, pos)
		rs := vc.ss.sortOf(sig.Recv().Type())
		_, recvIsPtrParam = sig.Recv().Type().(*types.Pointer)
		if rv.Sort != rs {
			// implicit & or *
			if si := vc.ss.info[rs]; si != nil && si.Kind == "ptr" {
				rv = Term{fmt.Sprintf("(ref.%s %s)", rs, rv.S), rs, sig.Recv().Type()}
			} else if si := vc.ss.info[rv.Sort]; si != nil && si.Kind == "ptr" {
				rv = vc.deref(rv, st, pos)
			}
		}
		env.vars[rname] = rv
		env.old[rname] = rv
		env.vars["self"] = rv
		env.old["self"] = rv
	}
	// preconditions
	for _, rq := range fc.Requires {
		c := vc.specBool(rq.Expr, env)
		label := rq.Name
		if label == "" {
			label = fc.Name
		} else {
			label = fc.Name + "." + label
		}
		vc.oblige("pre", label, pos, st.pc, c, "precondition of "+fc.Name+": "+rq.Src)
	}
	// termination of direct recursion: the measure of the callee's arguments is
	// smaller (lexicographically) than the measure at entry, which is >= 0
	if vc.fi != nil && vc.fc != nil && fc == vc.fc && len(fc.Measure) > 0 && len(vc.frames) == 1 {
		entryEnv := &SpecEnv{vc: vc, vars: map[string]Value{}, old: map[string]Value{}, pkg: fc.Pkg}
		for k, v := range vc.entry {
			entryEnv.vars[k] = v
			entryEnv.old[k] = v
		}
		var alts []Term
		var eqs []Term
		for _, mc := range fc.Measure {
			m0 := vc.spec(mc.Expr, entryEnv)
			m1 := vc.spec(mc.Expr, env)
			lt := Term{fmt.Sprintf("(and (<= 0 %s) (< %s %s))", m0.S, m1.S, m0.S), SBool, nil}
			alts = append(alts, tAnd(append(append([]Term{}, eqs...), lt)...))
			eqs = append(eqs, tEq(m1, m0))
		}
		vc.oblige("decreases", "rec:"+fc.Name, pos, st.pc, tOr(alts...), "the measure decreases at the recursive call")
	}
	// modified pointees
	for _, m := range fc.Modifies {
		old, ok := env.vars[m].(Term)
		if !ok {
			continue
		}
		nv := vc.freshOfSort(m+"'", old.Sort, old.T)
		if old.T != nil {
			if f := vc.rangeFacts(nv, old.T, 0); f.S != "true" {
				vc.assume(tBool(true), f)
			}
		}
		// the pointer stays non-nil iff it was
		if si := vc.ss.info[old.Sort]; si != nil && si.Kind == "ptr" {
			vc.assume(tBool(true), Term{fmt.Sprintf("(= ((_ is ref.%s) %s) ((_ is ref.%s) %s))", old.Sort, nv.S, old.Sort, old.S), SBool, nil})
		}
		env.vars[m] = nv
		if m == rname {
			env.vars["self"] = nv
		}
	}
	// results
	rnames := vc.resultNames(fc, sig)
	var results []Value
	for i, n := range rnames {
		rt := sig.Results().At(i).Type()
		var r Term
		if fc.Pure {
			r = vc.pureResult(fc, sig, i, env, pnames, rname)
		} else {
			r = vc.freshConst(n, rt)
		}
		env.vars[n] = r
		results = append(results, r)
	}
	if len(results) == 1 {
		env.vars["result"] = results[0]
	}
	for _, en := range fc.Ensures {
		vc.assume(st.pc, vc.specBool(en.Expr, env))
	}
	// write back modified pointees
	for _, m := range fc.Modifies {
		nv := env.vars[m].(Term)
		if m == rname {
			if recvExpr != nil {
				vc.writeBack(recvExpr, nv, recvIsPtrParam, st)
			}
			continue
		}
		for i, n := range pnames {
			if n == m && i < len(call.Args) {
				vc.writeBack(call.Args[i], nv, true, st)
			}
		}
	}
	return results
}

// writeBack stores the post-state of a pointer parameter into the caller's
// variable that was passed (explicit &x, implicit & of an addressable
// receiver, or a pointer-typed variable).
func (vc *VC) writeBack(argExpr ast.Expr, nv Term, paramIsPtr bool, st *State) {
	save := vc.safety
	vc.safety = false
	defer func() { vc.safety = save }()
	e := ast.Unparen(argExpr)
	if u, ok := e.(*ast.UnaryExpr); ok && u.Op == token.AND {
		if si := vc.ss.info[nv.Sort]; si != nil && si.Kind == "ptr" {
			vc.store(u.X, st, Term{fmt.Sprintf("(val.%s %s)", nv.Sort, nv.S), vc.ss.sortOf(si.Elem), si.Elem})
		}
		return
	}
	at := vc.typeOf(e)
	if at == nil {
		return
	}
	switch e.(type) {
	case *ast.Ident, *ast.SelectorExpr, *ast.IndexExpr, *ast.StarExpr:
	default:
		return
	}
	as := vc.ss.sortOf(at)
	if as == nv.Sort {
		vc.store(e, st, nv)
		return
	}
	if si := vc.ss.info[nv.Sort]; si != nil && si.Kind == "ptr" && vc.ss.sortOf(si.Elem) == as {
		// implicit address-of on an addressable value
		vc.store(e, st, Term{fmt.Sprintf("(val.%s %s)", nv.Sort, nv.S), as, si.Elem})
	}
}

// pureResult: result k of a pure function as an application of an
// uninterpreted function of the arguments.
func (vc *VC) pureResult(fc *FuncContract, sig *types.Signature, k int, env *SpecEnv, pnames []string, rname string) Term {
	var argTerms []Term
	var sorts []string
	if rname != "" {
		r := env.old[rname].(Term)
		argTerms = append(argTerms, r)
		sorts = append(sorts, string(r.Sort))
	}
	for _, n := range pnames {
		if v, ok := env.old[n].(Term); ok {
			argTerms = append(argTerms, v)
			sorts = append(sorts, string(v.Sort))
		}
	}
	rt := sig.Results().At(k).Type()
	rs := vc.ss.sortOf(rt)
	fn := fmt.Sprintf("fn.%s.%d", sanitize(strings.TrimPrefix(fc.Key, modPath+"/")), k)
	if len(vc.ss.tparams) > 0 {
		fn += "." + sanitize(string(rs))
		for _, s := range sorts {
			fn += "." + sanitize(s)
		}
	}
	vc.ss.declare(&sortInfo{Name: Sort("fn$" + fn), Kind: "const", Decl: fmt.Sprintf("(declare-fun %s (%s) %s)", fn, strings.Join(sorts, " "), rs)})
	res := Term{app(fn, argTerms...), rs, rt}
	if f := vc.rangeFacts(res, rt, 0); f.S != "true" && !strings.Contains(res.S, "?") {
		vc.assume(tBool(true), f)
	}
	vc.pureDefAxiom(fc, sig, fn, pnames, rname)
	return res
}

// pureDefAxiom: the contract of a pure function as a quantified fact about
// its result functions,
//
//	forall recv, params. requires => ensures[results := fn.k(recv, params)]
//
// (sound when the function satisfies its contract — it is verified in its own
// property group or listed as trusted — and is deterministic). Not added
// while the function itself is being verified.
func (vc *VC) pureDefAxiom(fc *FuncContract, sig *types.Signature, fnBase string, pnames []string, rname string) {
	if len(fc.Ensures) == 0 || (vc.fi != nil && vc.fi.Key == fc.Key) {
		return
	}
	if vc.pureAx == nil {
		vc.pureAx = map[string]bool{}
	}
	id := fnBase[:strings.LastIndex(fnBase, ".")]
	if len(vc.ss.tparams) > 0 {
		id = fnBase
	}
	if vc.pureAx[id] {
		return
	}
	vc.pureAx[id] = true
	env := &SpecEnv{vc: vc, vars: map[string]Value{}, old: map[string]Value{}, bound: map[string]Term{}, pkg: fc.Pkg}
	var decls []string
	var facts []Term
	var args []Term
	if sig.Recv() != nil {
		rt := sig.Recv().Type()
		rs := vc.ss.sortOf(rt)
		r := Term{"r?", rs, rt}
		decls = append(decls, fmt.Sprintf("(r? %s)", rs))
		env.bound[rname] = r
		env.bound["self"] = r
		args = append(args, r)
		if f := vc.rangeFacts(r, rt, 1); f.S != "true" {
			facts = append(facts, f)
		}
	}
	for i, n := range pnames {
		pt := sig.Params().At(i).Type()
		ps := vc.ss.sortOf(pt)
		a := Term{fmt.Sprintf("a%d?", i), ps, pt}
		decls = append(decls, fmt.Sprintf("(a%d? %s)", i, ps))
		env.bound[n] = a
		args = append(args, a)
		if f := vc.rangeFacts(a, pt, 1); f.S != "true" {
			facts = append(facts, f)
		}
	}
	if len(decls) == 0 {
		return
	}
	var pats []string
	prefix := fnBase[:strings.LastIndex(fnBase, ".")]
	suffix := ""
	if len(vc.ss.tparams) > 0 {
		// fn.<key>.<k>.<sorts...>: rebuild per result below
		prefix = ""
	}
	rnames := vc.resultNames(fc, sig)
	type resFn struct{ name, head, sort string }
	var resFns []resFn
	var sorts []string
	for _, a := range args {
		sorts = append(sorts, string(a.Sort))
	}
	for k, rn := range rnames {
		rt := sig.Results().At(k).Type()
		rs := vc.ss.sortOf(rt)
		name := fmt.Sprintf("%s.%d", prefix, k)
		if prefix == "" {
			name = fmt.Sprintf("fn.%s.%d", sanitize(strings.TrimPrefix(fc.Key, modPath+"/")), k) + "." + sanitize(string(rs))
			for _, s := range sorts {
				name += "." + sanitize(s)
			}
		}
		_ = suffix
		vc.ss.declare(&sortInfo{Name: Sort("fn$" + name), Kind: "const", Decl: fmt.Sprintf("(declare-fun %s (%s) %s)", name, strings.Join(sorts, " "), rs)})
		res := Term{app(name, args...), rs, rt}
		env.bound[rn] = res
		if len(rnames) == 1 {
			env.bound["result"] = res
		}
		pats = append(pats, ":pattern ("+res.S+")")
		resFns = append(resFns, resFn{name, res.S, string(rs)})
	}
	for _, rq := range fc.Requires {
		facts = append(facts, vc.specBool(rq.Expr, env))
	}
	// one axiom per clause, so that clauses about other implementer kinds can
	// be left out of a query (pruneKinds)
	//
	// A contract that mentions its own function on other arguments (fold of
	// the children, ToEval of the operands) would be a matching loop: every
	// instance creates the terms that trigger the next. Inside the clauses
	// those applications use a limited twin symbol f$L, equal to f on every
	// term f(x) that exists, which does not trigger the contract again.
	// Two levels (f -> f$L -> f$LL) let the contract unfold twice below the
	// terms of the goal, which is what the wiring contracts need (a node, its
	// operands, their literal values), and then stop.
	suffix2 := func(level int) string { return strings.Repeat("L", level) }
	sym := func(name string, level int) string {
		if level == 0 {
			return name
		}
		return name + "$" + suffix2(level)
	}
	limited := false
	// relevel rewrites a clause for the given level: its head terms become
	// f$<level>, every other application of f becomes f$<level+1>
	relevel := func(t string, level int) string {
		for i, rf := range resFns {
			t = strings.ReplaceAll(t, rf.head, fmt.Sprintf("\x00%d\x00", i))
		}
		for _, rf := range resFns {
			if strings.Contains(t, "("+rf.name+" ") {
				limited = true
				t = strings.ReplaceAll(t, "("+rf.name+" ", "("+sym(rf.name, level+1)+" ")
			}
		}
		for i, rf := range resFns {
			h := strings.Replace(rf.head, "("+rf.name+" ", "("+sym(rf.name, level)+" ", 1)
			t = strings.ReplaceAll(t, fmt.Sprintf("\x00%d\x00", i), h)
		}
		return t
	}
	const levels = 2
	type cl struct{ body, guard string }
	var cls []cl
	for _, en := range fc.Ensures {
		body := tImp(tAnd(facts...), vc.specBool(en.Expr, env))
		cls = append(cls, cl{body.S, vc.guardKinds(en.Expr, env)})
	}
	patText := strings.Join(pats, " ")
	for _, c := range cls {
		b0 := relevel(c.body, 0)
		vc.gassumes = append(vc.gassumes, fmt.Sprintf("(assert (forall (%s) (! %s %s))) ; contract of pure %s ; @guard %s", strings.Join(decls, " "), b0, patText, fc.Key, c.guard))
	}
	if limited {
		for lv := 1; lv <= levels; lv++ {
			for _, rf := range resFns {
				vc.ss.declare(&sortInfo{Name: Sort("fn$" + sym(rf.name, lv)), Kind: "const", Decl: fmt.Sprintf("(declare-fun %s (%s) %s)", sym(rf.name, lv), strings.Join(sorts, " "), rf.sort)})
				lo := strings.Replace(rf.head, "("+rf.name+" ", "("+sym(rf.name, lv-1)+" ", 1)
				hi := strings.Replace(rf.head, "("+rf.name+" ", "("+sym(rf.name, lv)+" ", 1)
				vc.gassumes = append(vc.gassumes, fmt.Sprintf("(assert (forall (%s) (! (= %s %s) :pattern (%s)))) ; limited twin of %s", strings.Join(decls, " "), lo, hi, lo, fc.Key))
			}
			if lv == levels {
				break
			}
			for _, c := range cls {
				vc.gassumes = append(vc.gassumes, fmt.Sprintf("(assert (forall (%s) (! %s %s))) ; contract of pure %s (level %d) ; @guard %s", strings.Join(decls, " "), relevel(c.body, lv), relevel(patText, lv), fc.Key, lv, c.guard))
			}
		}
	}
	vc.axiomsUsed = append(vc.axiomsUsed, "pure:"+strings.TrimPrefix(fc.Key, modPath+"/"))
}

// bindTypeArgs installs the type-parameter substitution for a generic callee.
func (vc *VC) bindTypeArgs(callee *types.Func, recv Value, call *ast.CallExpr) map[string]types.Type {
	save := vc.ss.tparams
	sig := callee.Type().(*types.Signature)
	orig := callee.Origin()
	osig := orig.Type().(*types.Signature)
	nm := map[string]types.Type{}
	for k, v := range save {
		nm[k] = v
	}
	changed := false
	// receiver type parameters
	if osig.Recv() != nil && sig.Recv() != nil {
		ort := osig.Recv().Type()
		rt := sig.Recv().Type()
		if p, ok := ort.(*types.Pointer); ok {
			ort = p.Elem()
		}
		if p, ok := rt.(*types.Pointer); ok {
			rt = p.Elem()
		}
		on, ok1 := types.Unalias(ort).(*types.Named)
		rn, ok2 := types.Unalias(rt).(*types.Named)
		if ok1 && ok2 && on.TypeParams().Len() > 0 && rn.TypeArgs().Len() == on.TypeParams().Len() {
			for i := 0; i < on.TypeParams().Len(); i++ {
				ta := rn.TypeArgs().At(i)
				if tp, isTP := ta.(*types.TypeParam); isTP {
					if a, ok := save[tp.Obj().Name()]; ok {
						ta = a
					} else {
						continue
					}
				}
				nm[on.TypeParams().At(i).Obj().Name()] = ta
				changed = true
			}
		}
	}
	// function type parameters
	if osig.TypeParams().Len() > 0 && call != nil {
		if id := calleeIdent(ast.Unparen(call.Fun)); id != nil {
			if inst, ok := vc.cur().info.Instances[id]; ok {
				for i := 0; i < osig.TypeParams().Len() && i < inst.TypeArgs.Len(); i++ {
					ta := inst.TypeArgs.At(i)
					if tp, isTP := ta.(*types.TypeParam); isTP {
						if a, ok := save[tp.Obj().Name()]; ok {
							ta = a
						} else {
							continue
						}
					}
					nm[osig.TypeParams().At(i).Obj().Name()] = ta
					changed = true
				}
			}
		}
	}
	if changed {
		vc.ss.tparams = nm
	}
	return save
}

func (vc *VC) restoreTypeArgs(save map[string]types.Type) { vc.ss.tparams = save }

// ------------------------------------------------------------ interface calls

func (vc *VC) ifaceCall(callee *types.Func, key string, recv Term, args []Value, call *ast.CallExpr, st *State) []Value {
	sig := callee.Type().(*types.Signature)
	fc := vc.w.cs.Funcs[key]
	if vc.safety {
		if vc.fc != nil && vc.fc.WellFormed {
			// sweep option `wellformed`: no nil children in the tree being walked
			vc.assume(st.pc, tNot(vc.isNil(recv, call.Pos())))
			vc.axiomsUsed = append(vc.axiomsUsed, "assumed: well-formed tree (interface-typed children are non-nil)")
		} else {
			vc.oblige("safe:nil-deref", "", call.Pos(), st.pc, tNot(vc.isNil(recv, call.Pos())), "interface receiver of "+callee.Name()+" is non-nil")
		}
	}
	if fc == nil || !fc.Pure {
		if fc != nil {
			return vc.callByContract(fc, callee, sig, recv, nil, args, call, st)
		}
		return vc.havocCall(call, callee, st, "")
	}
	// pure interface method: uninterpreted function of receiver and arguments
	var results []Value
	for k := 0; k < sig.Results().Len(); k++ {
		results = append(results, vc.ifaceFn(key, sig, k, recv, args, call.Pos()))
	}
	if len(fc.Requires) > 0 || len(fc.Ensures) > 0 {
		env := &SpecEnv{vars: map[string]Value{}, old: map[string]Value{}, pkg: fc.Pkg, vc: vc}
		for i, n := range vc.paramNames(fc, sig) {
			if i < len(args) {
				env.vars[n], env.old[n] = args[i], args[i]
			}
		}
		env.vars["self"], env.old["self"] = recv, recv
		for i, n := range vc.resultNames(fc, sig) {
			env.vars[n] = results[i]
		}
		if len(results) == 1 {
			env.vars["result"] = results[0]
		}
		for _, rq := range fc.Requires {
			vc.oblige("pre", fc.Name, call.Pos(), st.pc, vc.specBool(rq.Expr, env), "precondition of "+fc.Name+": "+rq.Src)
		}
		for _, en := range fc.Ensures {
			vc.assume(st.pc, vc.specBool(en.Expr, env))
		}
	}
	return results
}

// ifaceFn returns result k of a pure interface method as an uninterpreted
// function application.
func (vc *VC) ifaceFn(key string, sig *types.Signature, k int, recv Term, args []Value, pos token.Pos) Term {
	res := vc.ifaceFnTerm(key, sig, k, recv, args, pos)
	if f := vc.rangeFacts(res, res.T, 0); f.S != "true" && !strings.Contains(res.S, "?") {
		// (terms over bound variables get their range facts from the quantifier)
		vc.assume(tBool(true), f)
	}
	vc.maybeDispatch(key, sig)
	return res
}

func (vc *VC) ifaceFnTerm(key string, sig *types.Signature, k int, recv Term, args []Value, pos token.Pos) Term {
	rt := sig.Results().At(k).Type()
	rs := vc.ss.sortOf(rt)
	fn := fmt.Sprintf("im.%s.%d", sanitize(strings.TrimPrefix(key, modPath+"/")), k)
	sorts := []string{string(recv.Sort)}
	ats := []Term{recv}
	for i, a := range args {
		tm := vc.term(a, pos)
		if i < sig.Params().Len() {
			tm = vc.convertTo(tm, nil, sig.Params().At(i).Type(), pos)
		}
		ats = append(ats, tm)
		sorts = append(sorts, string(tm.Sort))
	}
	vc.ss.declare(&sortInfo{Name: Sort("fn$" + fn), Kind: "const", Decl: fmt.Sprintf("(declare-fun %s (%s) %s)", fn, strings.Join(sorts, " "), rs)})
	return Term{app(fn, ats...), rs, rt}
}

// maybeDispatch imports, as quantified axioms, the contracts of the concrete
// methods that implement a pure interface method (dynamic dispatch): for
// every implementer T with a contract,
//
//	forall r:T, args. requires(r,args) => ensures(r, args, results := I.m#k(inj(r), args)).
//
// This is sound when every such method satisfies its contract (each is
// verified in its own property group, or is listed as trusted) and is
// deterministic. It is opt-in per function (`dispatch <Iface.Method>`).
func (vc *VC) maybeDispatch(key string, sig *types.Signature) {
	if vc.fc == nil {
		return
	}
	want := false
	// `dispatch Iface.Method@T1@T2` imports the contracts of the listed
	// implementers only
	var only map[string]bool
	for _, d := range vc.fc.Dispatch {
		var lim []string
		if at := strings.Index(d, "@"); at >= 0 {
			lim = strings.Split(d[at+1:], "@")
			d = d[:at]
		}
		if strings.HasSuffix(key, "."+d) || key == d {
			want = true
			if len(lim) > 0 {
				if only == nil {
					only = map[string]bool{}
				}
				for _, l := range lim {
					only[l] = true
				}
			}
		}
	}
	if !want || vc.dispatched[key] {
		return
	}
	if vc.dispatched == nil {
		vc.dispatched = map[string]bool{}
	}
	vc.dispatched[key] = true
	ifaceT := sig.Recv().Type()
	iface, ok := vc.underlying(ifaceT).(*types.Interface)
	if !ok {
		return
	}
	isort := vc.ss.sortOf(ifaceT)
	name := key[strings.LastIndex(key, ".")+1:]
	// dispatching over the implementers presumes the closed world
	vc.closedWorld(Term{"nil." + string(isort), isort, ifaceT}, ifaceT)
	for _, T := range vc.w.implementers(iface, typeKey(ifaceT), ifaceT) {
		n, ok := derefNamed(T)
		if !ok {
			continue
		}
		if only != nil && !only[n.Obj().Name()] {
			continue
		}
		obj, _, _ := types.LookupFieldOrMethod(T, true, n.Obj().Pkg(), name)
		m, ok := obj.(*types.Func)
		if !ok {
			continue
		}
		k2 := funcObjKey(m)
		fc2 := vc.w.cs.Funcs[k2]
		if fc2 == nil || len(fc2.Ensures) == 0 {
			continue
		}
		msig := m.Type().(*types.Signature)
		env := &SpecEnv{vc: vc, vars: map[string]Value{}, old: map[string]Value{}, bound: map[string]Term{}, pkg: fc2.Pkg}
		var decls []string
		var facts []Term
		ts := vc.ss.sortOf(T)
		// quantify over the interface value so that the axiom triggers on any
		// application of the interface function
		iv := Term{"i?", isort, ifaceT}
		decls = append(decls, fmt.Sprintf("(i? %s)", isort))
		facts = append(facts, vc.ss.hasTag(isort, iv, T))
		r := vc.ss.proj(isort, iv, T)
		recvTerm := r
		// adapt to the method's receiver kind
		mrs := vc.ss.sortOf(msig.Recv().Type())
		if mrs != ts {
			if si := vc.ss.info[ts]; si != nil && si.Kind == "ptr" {
				facts = append(facts, Term{fmt.Sprintf("((_ is ref.%s) %s)", ts, r.S), SBool, nil})
				recvTerm = Term{fmt.Sprintf("(val.%s %s)", ts, r.S), mrs, msig.Recv().Type()}
			} else {
				continue
			}
		} else if si := vc.ss.info[ts]; si != nil && si.Kind == "ptr" {
			facts = append(facts, Term{fmt.Sprintf("((_ is ref.%s) %s)", ts, r.S), SBool, nil})
		}
		rn := msig.Recv().Name()
		if rn == "" || rn == "_" {
			rn = "self"
		}
		env.bound[rn] = recvTerm
		env.bound["self"] = recvTerm
		var args []Value
		for i, pn := range vc.paramNames(fc2, msig) {
			pt := msig.Params().At(i).Type()
			ps := vc.ss.sortOf(pt)
			a := Term{fmt.Sprintf("a%d?", i), ps, pt}
			decls = append(decls, fmt.Sprintf("(a%d? %s)", i, ps))
			env.bound[pn] = a
			args = append(args, a)
			if f := vc.rangeFacts(a, pt, 1); f.S != "true" {
				facts = append(facts, f)
			}
		}
		var pats []string
		for i, rname := range vc.resultNames(fc2, msig) {
			res := vc.ifaceFnTerm(key, sig, i, iv, args, token.NoPos)
			env.bound[rname] = res
			if msig.Results().Len() == 1 {
				env.bound["result"] = res
			}
			pats = append(pats, ":pattern ("+res.S+")")
		}
		for _, rq := range fc2.Requires {
			facts = append(facts, vc.specBool(rq.Expr, env))
		}
		var posts []Term
		for _, en := range fc2.Ensures {
			posts = append(posts, vc.specBool(en.Expr, env))
		}
		body := tImp(tAnd(facts...), tAnd(posts...))
		vc.gassumes = append(vc.gassumes, fmt.Sprintf("(assert (forall (%s) (! %s %s))) ; dispatch %s -> %s ; @guard %s.%d",
			strings.Join(decls, " "), body.S, strings.Join(pats, " "), key, k2, isort, vc.ss.typeID(T)))
		vc.axiomsUsed = append(vc.axiomsUsed, "dispatch:"+strings.TrimPrefix(k2, modPath+"/"))
	}
}

// ------------------------------------------------------------ inlining

func (vc *VC) inlineFunc(fi *FuncInfo, fc *FuncContract, recv Value, recvExpr ast.Expr, args []Value, call *ast.CallExpr, targs *types.TypeList, st *State) []Value {
	sig := fi.Obj.Type().(*types.Signature)
	callee := vc.calleeOf(call)
	if callee == nil {
		callee = fi.Obj
	}
	// evaluate in caller frame done; now switch to callee frame
	saveT := vc.bindTypeArgs(callee, recv, call)
	defer vc.restoreTypeArgs(saveT)
	fr := &frame{fi: fi, fc: fc, info: fi.Pkg.TypesInfo, pkgPath: fi.Pkg.PkgPath, sig: sig, name: fi.Key, depth: len(vc.frames)}
	callerFrame := vc.cur()
	_ = callerFrame
	// bind receiver
	var recvObj *types.Var
	if fi.Decl.Recv != nil && len(fi.Decl.Recv.List) > 0 && len(fi.Decl.Recv.List[0].Names) > 0 {
		recvObj, _ = fi.Pkg.TypesInfo.Defs[fi.Decl.Recv.List[0].Names[0]].(*types.Var)
	}
	var recvIsPtr bool
	if sig.Recv() != nil {
		_, recvIsPtr = sig.Recv().Type().(*types.Pointer)
	}
	if recvObj != nil && recv != nil {
		rv := vc.term(recv, call.Pos())
		rs := vc.ss.sortOf(sig.Recv().Type())
		if rv.Sort != rs {
			if si := vc.ss.info[rs]; si != nil && si.Kind == "ptr" {
				rv = Term{fmt.Sprintf("(ref.%s %s)", rs, rv.S), rs, sig.Recv().Type()}
			} else if si := vc.ss.info[rv.Sort]; si != nil && si.Kind == "ptr" {
				rv = vc.deref(rv, st, call.Pos())
			}
		}
		st.vars[recvObj] = rv
	}
	// bind params
	var paramObjs []*types.Var
	idx := 0
	if fi.Decl.Type.Params != nil {
		for _, fld := range fi.Decl.Type.Params.List {
			if len(fld.Names) == 0 {
				idx++
				paramObjs = append(paramObjs, nil)
				continue
			}
			for _, n := range fld.Names {
				obj, _ := fi.Pkg.TypesInfo.Defs[n].(*types.Var)
				paramObjs = append(paramObjs, obj)
				if obj != nil && idx < len(args) {
					v := args[idx]
					if tm, ok := v.(Term); ok {
						var from types.Type
						if idx < len(call.Args) && len(call.Args) == len(args) {
							from = vc.typeOfIn(callerFrame, call.Args[idx])
						}
						v = vc.convertTo(tm, from, obj.Type(), call.Pos())
					}
					st.vars[obj] = v
				}
				idx++
			}
		}
	}
	// named results
	if fi.Decl.Type.Results != nil {
		for _, fld := range fi.Decl.Type.Results.List {
			for _, n := range fld.Names {
				obj, _ := fi.Pkg.TypesInfo.Defs[n].(*types.Var)
				if obj != nil {
					fr.results = append(fr.results, obj)
					st.vars[obj] = vc.ss.zero(obj.Type())
				}
			}
		}
	}
	vc.frames = append(vc.frames, fr)
	end := vc.execBlock(fi.Decl.Body.List, st.clone())
	if end != nil {
		if sig.Results().Len() == 0 {
			fr.returns = append(fr.returns, retPoint{st: end})
		} else if len(fr.results) > 0 {
			// falling off the end is a compile error for functions with results
		}
	}
	vc.frames = vc.frames[:len(vc.frames)-1]
	results := vc.joinReturns(fr, sig, st)
	// write back pointer receiver / pointer params
	if recvObj != nil && recvIsPtr && recvExpr != nil {
		if nv, ok := st.vars[recvObj].(Term); ok {
			vc.writeBack(recvExpr, nv, true, st)
		}
	}
	for i, obj := range paramObjs {
		if obj == nil || i >= len(call.Args) || len(call.Args) != len(args) {
			continue
		}
		switch vc.underlying(obj.Type()).(type) {
		case *types.Pointer:
			if nv, ok := st.vars[obj].(Term); ok {
				vc.writeBack(call.Args[i], nv, true, st)
			}
		case *types.Slice, *types.Map:
			// element writes through a slice/map parameter are visible to the caller
			if paramWritten(fi, obj) {
				if nv, ok := st.vars[obj].(Term); ok {
					vc.writeBack(call.Args[i], nv, false, st)
				}
			}
		}
	}
	return results
}

func (vc *VC) typeOfIn(fr *frame, e ast.Expr) types.Type {
	if tv, ok := fr.info.Types[e]; ok {
		return tv.Type
	}
	return nil
}

// paramWritten: does the function body store through the given slice/map parameter?
func paramWritten(fi *FuncInfo, obj *types.Var) bool {
	found := false
	ast.Inspect(fi.Decl.Body, func(n ast.Node) bool {
		as, ok := n.(*ast.AssignStmt)
		if !ok {
			return true
		}
		for _, l := range as.Lhs {
			if ix, ok := l.(*ast.IndexExpr); ok {
				if id, ok := ix.X.(*ast.Ident); ok && fi.Pkg.TypesInfo.ObjectOf(id) == obj {
					found = true
				}
			}
		}
		return true
	})
	return found
}

// joinReturns merges the return points of an inlined frame into st (in place)
// and returns the merged result values.
func (vc *VC) joinReturns(fr *frame, sig *types.Signature, st *State) []Value {
	n := sig.Results().Len()
	if len(fr.returns) == 0 {
		st.pc = tBool(false)
		var out []Value
		for i := 0; i < n; i++ {
			out = append(out, vc.unknown("r", sig.Results().At(i).Type()))
		}
		return out
	}
	// synthetic variables carry the results through the merge
	var robjs []*types.Var
	for i := 0; i < n; i++ {
		robjs = append(robjs, types.NewVar(token.NoPos, nil, fmt.Sprintf("$ret%d", i), sig.Results().At(i).Type()))
	}
	var sts []*State
	for _, rp := range fr.returns {
		for i := 0; i < n && i < len(rp.vals); i++ {
			rp.st.vars[robjs[i]] = rp.vals[i]
		}
		sts = append(sts, rp.st)
	}
	m := vc.mergeStates(sts)
	if m == nil {
		st.pc = tBool(false)
		var out []Value
		for i := 0; i < n; i++ {
			out = append(out, vc.unknown("r", sig.Results().At(i).Type()))
		}
		return out
	}
	st.pc = m.pc
	var out []Value
	for i := 0; i < n; i++ {
		out = append(out, m.vars[robjs[i]])
		delete(m.vars, robjs[i])
	}
	for k, v := range m.vars {
		st.vars[k] = v
	}
	return out
}

func (vc *VC) inlineClosure(c *Closure, args []Value, call *ast.CallExpr, st *State) []Value {
	for _, fr := range vc.frames {
		if fr.name == fmt.Sprintf("closure@%d", c.Lit.Pos()) {
			return vc.havocCall(call, nil, st, "recursive closure")
		}
	}
	sig, _ := c.Info.Types[c.Lit].Type.(*types.Signature)
	if sig == nil {
		return vc.havocCall(call, nil, st, "closure without signature")
	}
	args = vc.packVariadic(sig, args, call, st)
	fr := &frame{fi: c.Fr.fi, fc: nil, info: c.Info, pkgPath: c.Fr.pkgPath, sig: sig, name: fmt.Sprintf("closure@%d", c.Lit.Pos()), tsubst: c.Fr.tsubst}
	idx := 0
	if c.Lit.Type.Params != nil {
		for _, fld := range c.Lit.Type.Params.List {
			if len(fld.Names) == 0 {
				idx++
				continue
			}
			for _, n := range fld.Names {
				obj, _ := c.Info.Defs[n].(*types.Var)
				if obj != nil && idx < len(args) {
					v := args[idx]
					if tm, ok := v.(Term); ok {
						v = vc.convertTo(tm, nil, obj.Type(), call.Pos())
					}
					st.vars[obj] = v
				}
				idx++
			}
		}
	}
	if c.Lit.Type.Results != nil {
		for _, fld := range c.Lit.Type.Results.List {
			for _, n := range fld.Names {
				obj, _ := c.Info.Defs[n].(*types.Var)
				if obj != nil {
					fr.results = append(fr.results, obj)
					st.vars[obj] = vc.ss.zero(obj.Type())
				}
			}
		}
	}
	vc.frames = append(vc.frames, fr)
	end := vc.execBlock(c.Lit.Body.List, st.clone())
	if end != nil && sig.Results().Len() == 0 {
		fr.returns = append(fr.returns, retPoint{st: end})
	}
	vc.frames = vc.frames[:len(vc.frames)-1]
	return vc.joinReturns(fr, sig, st)
}
