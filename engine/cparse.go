package main

// Contract language: lexer, expression parser, block parser.
//
// Contracts live in comment-only files (zz_contracts_verif.go, build tag
// `verif`) inside /repo, and in /verif/contracts/*.spec for assumed contracts
// of standard-library callees. Every line that belongs to the contract
// language starts with `//@`.

import (
	"fmt"
	"strings"
	"unicode"
)

// ---------------------------------------------------------------- expressions

type CExpr interface{ cexpr() }

type (
	CInt    struct{ V string }
	CStr    struct{ V string }
	CBool   struct{ V bool }
	CNil    struct{}
	CIdent  struct{ Name string }
	CSel    struct {
		X    CExpr
		Name string
	}
	CIndex struct{ X, I CExpr }
	CSlice struct{ X, Lo, Hi CExpr }
	CCall  struct {
		Fn   string // plain or qualified name
		Recv CExpr  // non-nil for x.f(args) where x is not a package
		Args []CExpr
	}
	CUnary struct {
		Op string
		X  CExpr
	}
	CBinary struct {
		Op   string
		X, Y CExpr
	}
	CCond  struct{ C, A, B CExpr }
	CQuant struct {
		Forall bool
		Vars   []CParam
		Body   CExpr
		Pats   [][]CExpr
	}
	COld struct{ X CExpr }
	CLet struct {
		Name string
		Val  CExpr
		Body CExpr
	}
	CIs struct {
		X    CExpr
		Type string
	}
	CAssert struct { // x.(T)
		X    CExpr
		Type string
	}
)

type CParam struct {
	Name string
	Type string // Go type expression text or $sort
}

func (CInt) cexpr()    {}
func (CStr) cexpr()    {}
func (CBool) cexpr()   {}
func (CNil) cexpr()    {}
func (CIdent) cexpr()  {}
func (CSel) cexpr()    {}
func (CIndex) cexpr()  {}
func (CSlice) cexpr()  {}
func (CCall) cexpr()   {}
func (CUnary) cexpr()  {}
func (CBinary) cexpr() {}
func (CCond) cexpr()   {}
func (CQuant) cexpr()  {}
func (COld) cexpr()    {}
func (CLet) cexpr()    {}
func (CIs) cexpr()     {}
func (CAssert) cexpr() {}

type tok struct {
	kind string // id int str char op eof
	text string
	pos  int
}

type clex struct {
	src  string
	toks []tok
	p    int
}

func lexContract(src string) ([]tok, error) {
	var out []tok
	i := 0
	for i < len(src) {
		c := src[i]
		switch {
		case c == ' ' || c == '\t' || c == '\n' || c == '\r':
			i++
		case unicode.IsLetter(rune(c)) || c == '_' || c == '$':
			j := i + 1
			for j < len(src) && (unicode.IsLetter(rune(src[j])) || unicode.IsDigit(rune(src[j])) || src[j] == '_' || src[j] == '#' || src[j] == '$') {
				j++
			}
			out = append(out, tok{"id", src[i:j], i})
			i = j
		case c >= '0' && c <= '9':
			j := i + 1
			for j < len(src) && ((src[j] >= '0' && src[j] <= '9') || src[j] == '_' || src[j] == 'x' || (src[j] >= 'a' && src[j] <= 'f') || (src[j] >= 'A' && src[j] <= 'F')) {
				j++
			}
			out = append(out, tok{"int", strings.ReplaceAll(src[i:j], "_", ""), i})
			i = j
		case c == '"':
			j := i + 1
			var sb strings.Builder
			for j < len(src) && src[j] != '"' {
				if src[j] == '\\' && j+1 < len(src) {
					j++
					switch src[j] {
					case 'n':
						sb.WriteByte('\n')
					case 't':
						sb.WriteByte('\t')
					default:
						sb.WriteByte(src[j])
					}
					j++
					continue
				}
				sb.WriteByte(src[j])
				j++
			}
			if j >= len(src) {
				return nil, fmt.Errorf("unterminated string at %d", i)
			}
			out = append(out, tok{"str", sb.String(), i})
			i = j + 1
		case c == '\'':
			// char literal
			j := i + 1
			var v byte
			if j < len(src) && src[j] == '\\' {
				j++
				switch src[j] {
				case 'n':
					v = '\n'
				case 't':
					v = '\t'
				case 'r':
					v = '\r'
				case '0':
					v = 0
				default:
					v = src[j]
				}
				j++
			} else {
				v = src[j]
				j++
			}
			if j >= len(src) || src[j] != '\'' {
				return nil, fmt.Errorf("bad char literal at %d", i)
			}
			out = append(out, tok{"int", fmt.Sprint(int(v)), i})
			i = j + 1
		default:
			ops := []string{"<==>", "==>", "::", "==", "!=", "<=", ">=", "&&", "||", ":=",
				"+", "-", "*", "/", "%", "<", ">", "!", "(", ")", "[", "]", "{", "}", ",", ".", ":", "?", "=", ";", "|"}
			matched := false
			for _, op := range ops {
				if strings.HasPrefix(src[i:], op) {
					out = append(out, tok{"op", op, i})
					i += len(op)
					matched = true
					break
				}
			}
			if !matched {
				return nil, fmt.Errorf("unexpected character %q at %d in %q", c, i, src)
			}
		}
	}
	out = append(out, tok{"eof", "", len(src)})
	return out, nil
}

func parseContractExpr(src string) (e CExpr, err error) {
	toks, err := lexContract(src)
	if err != nil {
		return nil, err
	}
	l := &clex{src: src, toks: toks}
	defer func() {
		if r := recover(); r != nil {
			if pe, ok := r.(parseErr); ok {
				err = fmt.Errorf("%s (in %q)", string(pe), src)
				return
			}
			panic(r)
		}
	}()
	e = l.parseExpr()
	if l.peek().kind != "eof" {
		l.fail("trailing tokens: " + l.peek().text)
	}
	return e, nil
}

type parseErr string

func (l *clex) fail(msg string) { panic(parseErr(fmt.Sprintf("contract parse error at %d: %s", l.peek().pos, msg))) }
func (l *clex) peek() tok       { return l.toks[l.p] }
func (l *clex) next() tok       { t := l.toks[l.p]; l.p++; return t }
func (l *clex) isOp(s string) bool {
	t := l.peek()
	return t.kind == "op" && t.text == s
}
func (l *clex) isId(s string) bool {
	t := l.peek()
	return t.kind == "id" && t.text == s
}
func (l *clex) expectOp(s string) {
	if !l.isOp(s) {
		l.fail("expected " + s + " got " + l.peek().text)
	}
	l.p++
}

// parseExpr: lowest precedence = ternary
func (l *clex) parseExpr() CExpr {
	if l.isId("forall") || l.isId("exists") {
		return l.parseQuant()
	}
	if l.isId("let") {
		l.next()
		name := l.next().text
		if l.isOp(":=") || l.isOp("=") {
			l.next()
		} else {
			l.fail("expected := in let")
		}
		v := l.parseExpr()
		if !l.isId("in") {
			l.fail("expected 'in'")
		}
		l.next()
		b := l.parseExpr()
		return CLet{name, v, b}
	}
	c := l.parseIff()
	if l.isOp("?") {
		l.next()
		a := l.parseExpr()
		l.expectOp(":")
		b := l.parseExpr()
		return CCond{c, a, b}
	}
	return c
}

func (l *clex) parseQuant() CExpr {
	q := CQuant{Forall: l.next().text == "forall"}
	for {
		name := l.next().text
		typ := l.parseTypeText()
		q.Vars = append(q.Vars, CParam{name, typ})
		if l.isOp(",") {
			l.next()
			continue
		}
		break
	}
	l.expectOp("::")
	for l.isOp("{") { // patterns { f(x), g(y) }
		l.next()
		var pat []CExpr
		for {
			pat = append(pat, l.parseExpr())
			if l.isOp(",") {
				l.next()
				continue
			}
			break
		}
		l.expectOp("}")
		q.Pats = append(q.Pats, pat)
	}
	q.Body = l.parseExpr()
	return q
}

// parseTypeText reads a Go type expression as raw text: [*][[]]ident[.ident][[T]]
func (l *clex) parseTypeText() string {
	var sb strings.Builder
	for l.isOp("*") || l.isOp("[") {
		if l.isOp("*") {
			l.next()
			sb.WriteString("*")
		} else {
			l.next()
			l.expectOp("]")
			sb.WriteString("[]")
		}
	}
	if l.isId("map") {
		l.next()
		l.expectOp("[")
		k := l.parseTypeText()
		l.expectOp("]")
		v := l.parseTypeText()
		return sb.String() + "map[" + k + "]" + v
	}
	t := l.next()
	if t.kind != "id" {
		l.fail("expected type name, got " + t.text)
	}
	sb.WriteString(t.text)
	if t.text == "struct" && l.isOp("{") {
		l.next()
		l.expectOp("}")
		return sb.String() + "{}"
	}
	if l.isOp(".") {
		l.next()
		sb.WriteString("." + l.next().text)
	}
	if l.isOp("[") { // generic instantiation
		l.next()
		sb.WriteString("[" + l.parseTypeText() + "]")
		l.expectOp("]")
	}
	return sb.String()
}

func (l *clex) parseIff() CExpr {
	x := l.parseImp()
	for l.isOp("<==>") {
		l.next()
		y := l.parseImp()
		x = CBinary{"<==>", x, y}
	}
	return x
}
func (l *clex) parseImp() CExpr {
	x := l.parseOr()
	if l.isOp("==>") {
		l.next()
		var y CExpr
		if l.isId("forall") || l.isId("exists") || l.isId("let") {
			y = l.parseExpr()
		} else {
			y = l.parseImp()
		}
		return CBinary{"==>", x, y}
	}
	return x
}
func (l *clex) parseOr() CExpr {
	x := l.parseAnd()
	for l.isOp("||") {
		l.next()
		x = CBinary{"||", x, l.parseAnd()}
	}
	return x
}
func (l *clex) parseAnd() CExpr {
	x := l.parseCmp()
	for l.isOp("&&") {
		l.next()
		if l.isId("forall") || l.isId("exists") || l.isId("let") {
			x = CBinary{"&&", x, l.parseExpr()}
			return x
		}
		x = CBinary{"&&", x, l.parseCmp()}
	}
	return x
}
func (l *clex) parseCmp() CExpr {
	x := l.parseAdd()
	for {
		t := l.peek()
		if t.kind == "op" && (t.text == "==" || t.text == "!=" || t.text == "<" || t.text == "<=" || t.text == ">" || t.text == ">=") {
			l.next()
			y := l.parseAdd()
			x = CBinary{t.text, x, y}
			continue
		}
		if t.kind == "id" && t.text == "is" {
			l.next()
			x = CIs{x, l.parseTypeText()}
			continue
		}
		return x
	}
}
func (l *clex) parseAdd() CExpr {
	x := l.parseMul()
	for l.isOp("+") || l.isOp("-") {
		op := l.next().text
		x = CBinary{op, x, l.parseMul()}
	}
	return x
}
func (l *clex) parseMul() CExpr {
	x := l.parseUnary()
	for l.isOp("*") || l.isOp("/") || l.isOp("%") {
		op := l.next().text
		x = CBinary{op, x, l.parseUnary()}
	}
	return x
}
func (l *clex) parseUnary() CExpr {
	if l.isOp("!") {
		l.next()
		return CUnary{"!", l.parseUnary()}
	}
	if l.isOp("-") {
		l.next()
		return CUnary{"-", l.parseUnary()}
	}
	if l.isOp("*") {
		// *p: the value a pointer refers to
		l.next()
		return CUnary{"*", l.parseUnary()}
	}
	return l.parsePostfix()
}
func (l *clex) parsePostfix() CExpr {
	x := l.parsePrimary()
	for {
		switch {
		case l.isOp("."):
			l.next()
			if l.isOp("(") { // type assertion
				l.next()
				t := l.parseTypeText()
				l.expectOp(")")
				x = CAssert{x, t}
				continue
			}
			name := l.next().text
			if l.isOp("(") {
				args := l.parseArgs()
				// qualified call pkg.f(...) vs method call
				if id, ok := x.(CIdent); ok {
					x = CCall{Fn: id.Name + "." + name, Args: args, Recv: x}
				} else {
					x = CCall{Fn: name, Recv: x, Args: args}
				}
				continue
			}
			x = CSel{x, name}
		case l.isOp("["):
			l.next()
			var lo, hi CExpr
			if !l.isOp(":") {
				lo = l.parseExpr()
			}
			if l.isOp(":") {
				l.next()
				if !l.isOp("]") {
					hi = l.parseExpr()
				}
				l.expectOp("]")
				x = CSlice{x, lo, hi}
				continue
			}
			l.expectOp("]")
			x = CIndex{x, lo}
		default:
			return x
		}
	}
}
func (l *clex) parseArgs() []CExpr {
	l.expectOp("(")
	var args []CExpr
	for !l.isOp(")") {
		args = append(args, l.parseExpr())
		if l.isOp(",") {
			l.next()
		}
	}
	l.expectOp(")")
	return args
}
func (l *clex) parsePrimary() CExpr {
	t := l.next()
	switch t.kind {
	case "int":
		return CInt{t.text}
	case "str":
		return CStr{t.text}
	case "id":
		switch t.text {
		case "true":
			return CBool{true}
		case "false":
			return CBool{false}
		case "nil":
			return CNil{}
		case "old":
			args := l.parseArgs()
			if len(args) != 1 {
				l.fail("old takes one argument")
			}
			return COld{args[0]}
		case "forall", "exists":
			l.p--
			return l.parseQuant()
		}
		if l.isOp("(") {
			return CCall{Fn: t.text, Args: l.parseArgs()}
		}
		return CIdent{t.text}
	case "op":
		if t.text == "(" {
			e := l.parseExpr()
			l.expectOp(")")
			return e
		}
	}
	l.p--
	l.fail("unexpected token " + t.text)
	return nil
}

// --------------------------------------------------------------------- blocks

type Clause struct {
	Kind string // requires ensures invariant assert ...
	Name string // optional label
	Src  string
	Expr CExpr
	File string
	Line int
}

type LoopSpec struct {
	Ord        string // "1", "1.1", ...
	Invariants []Clause
	Decreases  []Clause
	Modifies   []string // extra havoc targets
	Bag        bool
}

type FuncContract struct {
	Key       string // pkgpath.Func or pkgpath.Recv.Func
	Pkg       string
	Name      string
	Props     []string
	Arith     string // "checked" or "wrap"
	Requires  []Clause
	Ensures   []Clause
	Loops     map[string]*LoopSpec
	Wraps     []string
	Measure   []Clause // termination measure of a recursive function (lexicographic)
	Inline    bool
	Pure      bool
	Trusted   bool     // contract assumed, body not verified
	NoBody    bool     // stdlib spec
	Modifies  []string // parameter names whose pointee may change
	Results   []string // names for unnamed results
	Params    []string // names for unnamed params
	Asserts   []AnchoredClause
	Assumes   []AnchoredClause
	Ghosts    []AnchoredClause
	Safety    bool // generate safety obligations
	NoSafety  bool
	WellFormed bool // interface values reached from the inputs are assumed non-nil (well-formed tree)
	Opaque    []string
	File      string
	Line      int
	Known     []string
	Unfold    int
	CallDepth int
	Timeout   int
	Notes     []string
	Dispatch  []string // interface methods whose implementer contracts are imported as axioms
	IterCanonical bool // the body must be the canonical iterator over the receiver's map
	Implicit  bool     // created by a `sweep` declaration (no clauses of its own)
	Frame     []string // frame directives (see frame.go)
	NoInline  []string // callees that must not be inlined (havoc instead)
}

type AnchoredClause struct {
	Anchor string
	When   string // before | after
	Clause Clause
}

type SpecFunc struct {
	Name    string
	Params  []CParam
	Ret     string
	BodySrc string
	Body    CExpr
	Pkg     string
	File    string
	Line    int
}

type Axiom struct {
	Name string
	Src  string
	Expr CExpr
	Pkg  string
	File string
	Line int
	Lean string // reference to a lean lemma, if any
}

type SortDecl struct {
	Name string
	Pkg  string
}

type OpaqueDecl struct {
	Type string
	Pkg  string
}

type IfaceMethodContract struct {
	Iface, Method string
	Pkg           string
	Pure          bool
}

type ContractSet struct {
	Funcs   map[string]*FuncContract
	Specs   []*SpecFunc
	Axioms  []*Axiom
	Sorts   []SortDecl
	Opaques []OpaqueDecl
	Aliases map[string]string // interface sort alias: "pkg.A" -> "pkg.B"
	Order   []string
	Sweeps  []SweepDecl
	TypeInvs []TypeInv
	ValInvs  []TypeInv
	FrameDecls []FrameDecl
	Lemmas     []*Lemma
}

type Lemma struct {
	Prop, Name, Src string
	Dispatch        []string
	Expr            CExpr
	Pkg, File       string
	Line            int
}

type FrameDecl struct {
	Prop   string
	Pkg    string
	Funcs  []string // Name or Type.Method
	NoLeak bool
	// Shallow: the function may assign to the variable its receiver points to
	// (`*h = v`, `h.f = v`) - what a decoder is for - but not to anything
	// that variable references (maps, slices, pointees), which may be shared
	// with copies of the old value
	Shallow bool
}

type SweepDecl struct {
	Prop  string
	Pkg   string
	Files []string
}

type TypeInv struct {
	Type     string
	Pkg      string
	Clause   Clause
	ReadOnly bool // recvreq: a precondition only
}

func newContractSet() *ContractSet {
	return &ContractSet{Funcs: map[string]*FuncContract{}, Aliases: map[string]string{}}
}

var clauseKeywords = map[string]bool{
	"props": true, "arith": true, "requires": true, "ensures": true, "loop": true,
	"wraps": true, "inline": true, "pure": true, "trusted": true, "modifies": true, "measure": true,
	"results": true, "params": true, "invariant": true, "decreases": true, "bag": true, "assert": true, "assume": true, "ghost": true, "safety": true,
	"nosafety": true, "known": true, "note": true, "timeout": true, "calldepth": true, "dispatch": true, "noinline": true, "itercanonical": true, "frame": true,
}

// parseContractLines parses the `//@` lines of one file. pkgPath is the Go
// package the file belongs to ("" for stdlib spec files, where function names
// are written fully qualified).
func (cs *ContractSet) parseContractLines(file, pkgPath string, lines []string, lineNos []int) error {
	// group into logical statements: a statement begins at a line whose first
	// word is a top-level or clause keyword; other lines continue the previous.
	type stmt struct {
		text string
		line int
	}
	var stmts []stmt
	top := map[string]bool{"func": true, "spec": true, "axiom": true, "sort": true, "opaque": true, "alias": true, "lemma": true, "sweep": true, "typeinv": true, "valinv": true, "frameclean": true, "noleak": true, "frameshallow": true, "recvreq": true}
	for i, ln := range lines {
		t := strings.TrimSpace(ln)
		if t == "" || strings.HasPrefix(t, "//") {
			continue
		}
		if k := strings.Index(t, " //"); k >= 0 && !strings.Contains(t[:k], "\"") { // trailing comment
			t = strings.TrimSpace(t[:k])
		} else if k := strings.LastIndex(t, " // "); k >= 0 && strings.Count(t[:k], "\"")%2 == 0 {
			t = strings.TrimSpace(t[:k])
		}
		first := t
		if j := strings.IndexAny(t, " \t"); j >= 0 {
			first = t[:j]
		}
		if top[first] || clauseKeywords[first] {
			stmts = append(stmts, stmt{t, lineNos[i]})
		} else if len(stmts) > 0 {
			stmts[len(stmts)-1].text += " " + t
		} else {
			return fmt.Errorf("%s:%d: stray contract line %q", file, lineNos[i], t)
		}
	}
	var cur *FuncContract
	var curLoop *LoopSpec
	for _, s := range stmts {
		word, rest := splitWord(s.text)
		mk := func(kind, src string) (Clause, error) {
			name := ""
			// optional label: `name: expr` where name is identifier followed by ':' not '::'
			if j := strings.Index(src, ":"); j > 0 && !strings.HasPrefix(src[j:], "::") && !strings.HasPrefix(src[j:], ":=") && isIdent(src[:j]) {
				name = src[:j]
				src = strings.TrimSpace(src[j+1:])
			}
			e, err := parseContractExpr(src)
			if err != nil {
				return Clause{}, fmt.Errorf("%s:%d: %v", file, s.line, err)
			}
			return Clause{Kind: kind, Name: name, Src: src, Expr: e, File: file, Line: s.line}, nil
		}
		switch word {
		case "func":
			key, name := funcKey(pkgPath, rest)
			cur = &FuncContract{Key: key, Pkg: pkgPath, Name: name, Loops: map[string]*LoopSpec{}, File: file, Line: s.line}
			if _, dup := cs.Funcs[key]; dup {
				return fmt.Errorf("%s:%d: duplicate contract for %s", file, s.line, key)
			}
			cs.Funcs[key] = cur
			cs.Order = append(cs.Order, key)
			curLoop = nil
		case "spec":
			sf, err := parseSpecFunc(rest)
			if err != nil {
				return fmt.Errorf("%s:%d: %v", file, s.line, err)
			}
			sf.Pkg, sf.File, sf.Line = pkgPath, file, s.line
			cs.Specs = append(cs.Specs, sf)
			cur = nil
		case "lemma":
			// lemma <PROP> <name> [dispatch I.m ...]: <formula>   (a proof obligation, never assumed)
			j := -1
			for k := 0; k+1 < len(rest); k++ {
				if rest[k] == ':' && rest[k+1] != ':' && (k == 0 || rest[k-1] != ':') {
					j = k
					break
				}
			}
			if j < 0 {
				return fmt.Errorf("%s:%d: lemma <PROP> <name> [dispatch ...]: <formula>", file, s.line)
			}
			hdr := strings.Fields(strings.ReplaceAll(rest[:j], ",", " "))
			if len(hdr) < 2 {
				return fmt.Errorf("%s:%d: lemma needs a property id and a name", file, s.line)
			}
			src := strings.TrimSpace(rest[j+1:])
			e, err := parseContractExpr(src)
			if err != nil {
				return fmt.Errorf("%s:%d: %v", file, s.line, err)
			}
			lm := &Lemma{Prop: hdr[0], Name: hdr[1], Src: src, Expr: e, Pkg: pkgPath, File: file, Line: s.line}
			if len(hdr) > 2 && hdr[2] == "dispatch" {
				lm.Dispatch = hdr[3:]
			}
			cs.Lemmas = append(cs.Lemmas, lm)
			cur = nil
		case "axiom":
			name, src := "", rest
			if j := strings.Index(rest, ":"); j > 0 && !strings.HasPrefix(rest[j:], "::") && isIdent(rest[:j]) {
				name, src = rest[:j], strings.TrimSpace(rest[j+1:])
			}
			e, err := parseContractExpr(src)
			if err != nil {
				return fmt.Errorf("%s:%d: %v", file, s.line, err)
			}
			cs.Axioms = append(cs.Axioms, &Axiom{Name: name, Src: src, Expr: e, Pkg: pkgPath, File: file, Line: s.line})
			cur = nil
		case "sort":
			cs.Sorts = append(cs.Sorts, SortDecl{Name: strings.TrimSpace(rest), Pkg: pkgPath})
			cur = nil
		case "opaque":
			cs.Opaques = append(cs.Opaques, OpaqueDecl{Type: strings.TrimSpace(rest), Pkg: pkgPath})
			cur = nil
		case "sweep":
			// sweep <PROP> <file.go> ... : every function declared in these files of
			// this package is checked for panic freedom (safety obligations)
			fs := strings.Fields(rest)
			if len(fs) < 2 {
				return fmt.Errorf("%s:%d: sweep <PROP> <file>...", file, s.line)
			}
			cs.Sweeps = append(cs.Sweeps, SweepDecl{Prop: fs[0], Pkg: pkgPath, Files: fs[1:]})
			cur = nil
		case "frameclean", "noleak", "frameshallow":
			fs := strings.Fields(strings.ReplaceAll(rest, ",", " "))
			if len(fs) < 2 {
				return fmt.Errorf("%s:%d: %s <PROP> <Func>...", file, s.line, word)
			}
			var fns []string
			for _, f := range fs[1:] {
				f = strings.TrimPrefix(strings.ReplaceAll(strings.ReplaceAll(f, "(", ""), ")", "."), "*")
				fns = append(fns, f)
			}
			cs.FrameDecls = append(cs.FrameDecls, FrameDecl{Prop: fs[0], Pkg: pkgPath, Funcs: fns, NoLeak: word == "noleak", Shallow: word == "frameshallow"})
			cur = nil
		case "typeinv", "recvreq":
			// typeinv <Type> <expr over self>: required and ensured by every method of Type
			// recvreq <Type> <expr over self>: only required (methods that read their receiver:
			// a well-formedness condition of an object that is never modified after construction)
			tn, ex := splitWord(rest)
			e, err := parseContractExpr(ex)
			if err != nil {
				return fmt.Errorf("%s:%d: %v", file, s.line, err)
			}
			cs.TypeInvs = append(cs.TypeInvs, TypeInv{Type: strings.TrimPrefix(tn, "*"), Pkg: pkgPath, ReadOnly: word == "recvreq", Clause: Clause{Kind: "typeinv", Name: word, Src: ex, Expr: e, File: file, Line: s.line}})
			cur = nil
		case "valinv":
			// valinv <Type> <expr over self>: representation invariant of every
			// value of the struct type; assumed wherever such a value comes from
			// outside the function under verification, an obligation where one
			// is built with a composite literal
			tn, ex := splitWord(rest)
			e, err := parseContractExpr(ex)
			if err != nil {
				return fmt.Errorf("%s:%d: %v", file, s.line, err)
			}
			cs.ValInvs = append(cs.ValInvs, TypeInv{Type: strings.TrimPrefix(tn, "*"), Pkg: pkgPath, Clause: Clause{Kind: "valinv", Name: "valinv", Src: ex, Expr: e, File: file, Line: s.line}})
			cur = nil
		case "alias":
			parts := strings.Split(rest, "=")
			if len(parts) != 2 {
				return fmt.Errorf("%s:%d: alias A = B", file, s.line)
			}
			cs.Aliases[strings.TrimSpace(parts[0])] = strings.TrimSpace(parts[1])
			cur = nil
		default:
			if cur == nil {
				return fmt.Errorf("%s:%d: clause %q outside func block", file, s.line, word)
			}
			switch word {
			case "props":
				cur.Props = append(cur.Props, strings.Fields(strings.ReplaceAll(rest, ",", " "))...)
			case "arith":
				cur.Arith = strings.TrimSpace(rest)
			case "requires":
				c, err := mk("requires", rest)
				if err != nil {
					return err
				}
				cur.Requires = append(cur.Requires, c)
			case "ensures":
				c, err := mk("ensures", rest)
				if err != nil {
					return err
				}
				cur.Ensures = append(cur.Ensures, c)
			case "loop":
				ord, r2 := splitWord(rest)
				ls := cur.Loops[ord]
				if ls == nil {
					ls = &LoopSpec{Ord: ord}
					cur.Loops[ord] = ls
				}
				curLoop = ls
				if r2 != "" {
					kw, r3 := splitWord(r2)
					if err := addLoopClause(ls, kw, r3, mk); err != nil {
						return fmt.Errorf("%s:%d: %v", file, s.line, err)
					}
				}
			case "invariant", "decreases", "bag":
				if curLoop == nil {
					return fmt.Errorf("%s:%d: %s outside loop block", file, s.line, word)
				}
				if err := addLoopClause(curLoop, word, rest, mk); err != nil {
					return fmt.Errorf("%s:%d: %v", file, s.line, err)
				}
			case "measure":
				c, err := mk("measure", rest)
				if err != nil {
					return err
				}
				cur.Measure = append(cur.Measure, c)
			case "wraps":
				cur.Wraps = append(cur.Wraps, unquote(rest))
			case "inline":
				cur.Inline = true
			case "pure":
				cur.Pure = true
			case "trusted":
				cur.Trusted = true
			case "safety":
				cur.Safety = true
			case "nosafety":
				cur.NoSafety = true
			case "modifies":
				if curLoop != nil {
					curLoop.Modifies = append(curLoop.Modifies, strings.Fields(strings.ReplaceAll(rest, ",", " "))...)
				} else {
					cur.Modifies = append(cur.Modifies, strings.Fields(strings.ReplaceAll(rest, ",", " "))...)
				}
			case "results":
				cur.Results = strings.Fields(strings.ReplaceAll(rest, ",", " "))
			case "params":
				cur.Params = strings.Fields(strings.ReplaceAll(rest, ",", " "))
			case "known":
				cur.Known = append(cur.Known, rest)
			case "note":
				cur.Notes = append(cur.Notes, rest)
			case "timeout":
				fmt.Sscan(rest, &cur.Timeout)
			case "calldepth":
				fmt.Sscan(rest, &cur.CallDepth)
			case "itercanonical":
				cur.IterCanonical = true
			case "frame":
				cur.Frame = append(cur.Frame, rest)
			case "dispatch":
				cur.Dispatch = append(cur.Dispatch, strings.Fields(strings.ReplaceAll(rest, ",", " "))...)
			case "noinline":
				cur.NoInline = append(cur.NoInline, strings.Fields(strings.ReplaceAll(rest, ",", " "))...)
			case "assert", "assume", "ghost":
				// assert before|after "anchor" expr
				when, r2 := splitWord(rest)
				if when != "before" && when != "after" {
					return fmt.Errorf("%s:%d: %s needs before|after \"anchor\"", file, s.line, word)
				}
				r2 = strings.TrimSpace(r2)
				// the anchor is delimited by double quotes, or by backquotes when the
				// statement text itself contains double quotes
				delim := "\""
				if strings.HasPrefix(r2, "`") {
					delim = "`"
				}
				if !strings.HasPrefix(r2, delim) {
					return fmt.Errorf("%s:%d: anchor string expected", file, s.line)
				}
				end := strings.Index(r2[1:], delim)
				if end < 0 {
					return fmt.Errorf("%s:%d: unterminated anchor string", file, s.line)
				}
				anchor := r2[1 : 1+end]
				body := strings.TrimSpace(r2[2+end:])
				c, err := mk(word, body)
				if err != nil {
					return err
				}
				ac := AnchoredClause{Anchor: anchor, When: when, Clause: c}
				switch word {
				case "assert":
					cur.Asserts = append(cur.Asserts, ac)
				case "assume":
					cur.Assumes = append(cur.Assumes, ac)
				default:
					cur.Ghosts = append(cur.Ghosts, ac)
				}
			}
			if word != "loop" && word != "modifies" {
				// invariants etc. directly after `loop N` line are handled below
			}
		}
		// clauses belonging to the current loop: `invariant`, `decreases` lines
		_ = curLoop
	}
	return nil
}

func addLoopClause(ls *LoopSpec, kw, rest string, mk func(kind, src string) (Clause, error)) error {
	switch kw {
	case "invariant":
		c, err := mk("invariant", rest)
		if err != nil {
			return err
		}
		ls.Invariants = append(ls.Invariants, c)
	case "decreases":
		c, err := mk("decreases", rest)
		if err != nil {
			return err
		}
		ls.Decreases = append(ls.Decreases, c)
	case "modifies":
		ls.Modifies = append(ls.Modifies, strings.Fields(strings.ReplaceAll(rest, ",", " "))...)
	case "bag":
		ls.Bag = true
	default:
		return fmt.Errorf("unknown loop clause %q", kw)
	}
	return nil
}

func splitWord(s string) (string, string) {
	s = strings.TrimSpace(s)
	if j := strings.IndexAny(s, " \t"); j >= 0 {
		return s[:j], strings.TrimSpace(s[j+1:])
	}
	return s, ""
}

func isIdent(s string) bool {
	if s == "" {
		return false
	}
	for i, c := range s {
		if !(unicode.IsLetter(c) || c == '_' || (i > 0 && (unicode.IsDigit(c) || c == '-'))) {
			return false
		}
	}
	return true
}

func unquote(s string) string {
	s = strings.TrimSpace(s)
	if len(s) >= 2 && s[0] == '"' && s[len(s)-1] == '"' {
		return s[1 : len(s)-1]
	}
	return s
}

// funcKey: "Name", "(T) Name", "(*T) Name", or for spec files "pkg/path.Name",
// "(pkg/path.T) Name". Returns the canonical key "pkgpath.Name" / "pkgpath.T.Name".
func funcKey(pkgPath, rest string) (string, string) {
	rest = strings.TrimSpace(rest)
	recv := ""
	if strings.HasPrefix(rest, "(") {
		end := strings.Index(rest, ")")
		recv = strings.TrimSpace(rest[1:end])
		recv = strings.TrimPrefix(recv, "*")
		rest = strings.TrimSpace(rest[end+1:])
	}
	name := rest
	if j := strings.IndexAny(name, " (\t"); j >= 0 {
		name = name[:j]
	}
	if pkgPath == "" {
		// fully qualified in spec files
		if recv != "" {
			return recv + "." + name, name
		}
		return name, name
	}
	if recv != "" {
		return pkgPath + "." + recv + "." + name, recv + "." + name
	}
	return pkgPath + "." + name, name
}

func parseSpecFunc(rest string) (*SpecFunc, error) {
	// func name(a T, b U) R [= body]
	rest = strings.TrimSpace(rest)
	if !strings.HasPrefix(rest, "func ") {
		return nil, fmt.Errorf("spec func expected")
	}
	rest = strings.TrimSpace(rest[5:])
	body := ""
	// split at first top-level " = " (not ==)
	depth := 0
	for i := 0; i < len(rest); i++ {
		switch rest[i] {
		case '(', '[':
			depth++
		case ')', ']':
			depth--
		case '=':
			if depth == 0 && (i+1 >= len(rest) || rest[i+1] != '=') && (i == 0 || (rest[i-1] != '=' && rest[i-1] != '!' && rest[i-1] != '<' && rest[i-1] != '>')) {
				body = strings.TrimSpace(rest[i+1:])
				rest = strings.TrimSpace(rest[:i])
				i = len(rest)
			}
		}
	}
	toks, err := lexContract(rest)
	if err != nil {
		return nil, err
	}
	l := &clex{src: rest, toks: toks}
	sf := &SpecFunc{}
	var perr error
	func() {
		defer func() {
			if r := recover(); r != nil {
				perr = fmt.Errorf("%v", r)
			}
		}()
		sf.Name = l.next().text
		l.expectOp("(")
		for !l.isOp(")") {
			var names []string
			names = append(names, l.next().text)
			for l.isOp(",") {
				l.next()
				names = append(names, l.next().text)
			}
			t := l.parseTypeText()
			for _, n := range names {
				sf.Params = append(sf.Params, CParam{n, t})
			}
			if l.isOp(",") {
				l.next()
			}
		}
		l.expectOp(")")
		sf.Ret = l.parseTypeText()
	}()
	if perr != nil {
		return nil, perr
	}
	if body != "" {
		sf.BodySrc = body
		e, err := parseContractExpr(body)
		if err != nil {
			return nil, err
		}
		sf.Body = e
	}
	return sf, nil
}
