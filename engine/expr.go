package main

// Symbolic evaluation of Go expressions.

import (
	"fmt"
	"go/ast"
	"go/constant"
	"go/token"
	"go/types"
	"math/big"
	"strings"
)

func (vc *VC) typeOf(e ast.Expr) types.Type {
	if tv, ok := vc.cur().info.Types[e]; ok && tv.Type != nil {
		return tv.Type
	}
	if id, ok := e.(*ast.Ident); ok {
		if o := vc.cur().info.ObjectOf(id); o != nil {
			return o.Type()
		}
	}
	return nil
}

func (vc *VC) constTerm(v constant.Value, t types.Type) (Term, bool) {
	switch v.Kind() {
	case constant.Bool:
		tm := tBool(constant.BoolVal(v))
		tm.T = t
		return tm, true
	case constant.Int:
		bi, ok := new(big.Int).SetString(v.ExactString(), 10)
		if !ok {
			return Term{}, false
		}
		if t != nil {
			if b, ok := types.Unalias(t).Underlying().(*types.Basic); ok && b.Info()&types.IsFloat != 0 {
				return Term{intLit(bi) + ".0", SReal, t}, true
			}
		}
		return Term{intLit(bi), SInt, t}, true
	case constant.String:
		return vc.w.strLit(constant.StringVal(v), t), true
	case constant.Float:
		if t != nil {
			if b, ok := types.Unalias(t).Underlying().(*types.Basic); ok && b.Info()&types.IsInteger != 0 {
				if iv := constant.ToInt(v); iv.Kind() == constant.Int {
					return vc.constTerm(iv, t)
				}
			}
		}
		return Term{}, false
	}
	return Term{}, false
}

func (vc *VC) term(v Value, pos token.Pos) Term {
	switch x := v.(type) {
	case Term:
		return x
	case nil:
		vc.unsupportedf(pos, "nil value where term expected")
	case *Closure, *FuncRef:
		vc.ss.declareFn()
		f := vc.freshOfSort("fn", SFn, nil)
		vc.assumes = append(vc.assumes, fmt.Sprintf("(assert (not (= %s fn.nil)))", f.S))
		return f
	case Tuple:
		vc.unsupportedf(pos, "tuple where single value expected")
	}
	return vc.freshOfSort("unk", SInt, nil)
}

// unknown returns a fresh, unconstrained value of type t (sound over-approximation).
func (vc *VC) unknown(hint string, t types.Type) Term {
	if t == nil {
		return vc.freshOfSort(hint, SInt, nil)
	}
	if tup, ok := t.(*types.Tuple); ok && tup.Len() == 1 {
		t = tup.At(0).Type()
	}
	return vc.freshConst(hint, t)
}

func (vc *VC) evalExpr(e ast.Expr, st *State) Value {
	info := vc.cur().info
	if tv, ok := info.Types[e]; ok && tv.Value != nil {
		if tm, ok := vc.constTerm(tv.Value, tv.Type); ok {
			return tm
		}
	}
	switch x := e.(type) {
	case *ast.ParenExpr:
		return vc.evalExpr(x.X, st)
	case *ast.BasicLit:
		vc.unsupportedf(x.Pos(), "literal %s", x.Value)
		return vc.unknown("lit", vc.typeOf(e))
	case *ast.Ident:
		return vc.evalIdent(x, st)
	case *ast.FuncLit:
		return &Closure{Lit: x, Info: info, Fr: vc.cur()}
	case *ast.CompositeLit:
		return vc.evalComposite(x, st)
	case *ast.SelectorExpr:
		return vc.evalSelector(x, st)
	case *ast.IndexExpr:
		return vc.evalIndex(x, st)
	case *ast.IndexListExpr:
		// generic instantiation f[A,B]
		return vc.evalExpr(x.X, st)
	case *ast.SliceExpr:
		return vc.evalSliceExpr(x, st)
	case *ast.StarExpr:
		p := vc.term(vc.evalExpr(x.X, st), x.Pos())
		return vc.deref(p, st, x.Pos())
	case *ast.UnaryExpr:
		return vc.evalUnary(x, st)
	case *ast.BinaryExpr:
		return vc.evalBinary(x, st)
	case *ast.CallExpr:
		vals := vc.evalCall(x, st)
		if len(vals) == 1 {
			return vals[0]
		}
		return Tuple(vals)
	case *ast.TypeAssertExpr:
		v, _ := vc.evalTypeAssert(x, st, false)
		return v
	case *ast.KeyValueExpr:
		return vc.evalExpr(x.Value, st)
	}
	vc.unsupportedf(e.Pos(), "expression %T", e)
	return vc.unknown("expr", vc.typeOf(e))
}

func (vc *VC) evalIdent(x *ast.Ident, st *State) Value {
	info := vc.cur().info
	obj := info.ObjectOf(x)
	switch o := obj.(type) {
	case *types.Nil:
		return Term{"nil", "Nil", types.Typ[types.UntypedNil]}
	case *types.Const:
		if tm, ok := vc.constTerm(o.Val(), o.Type()); ok {
			return tm
		}
	case *types.Var:
		if v, ok := st.vars[o]; ok {
			return v
		}
		if o.Pkg() != nil && o.Parent() == o.Pkg().Scope() {
			return vc.globalVar(o, x.Pos())
		}
		// variable declared but never assigned on this path (e.g. branch-scoped)
		vc.unsupportedf(x.Pos(), "read of unassigned variable %s", x.Name)
		v := vc.unknown(x.Name, o.Type())
		st.vars[o] = v
		return v
	case *types.Func:
		return &FuncRef{Obj: o}
	case *types.Builtin:
		return &FuncRef{}
	}
	if x.Name == "_" {
		return vc.unknown("blank", vc.typeOf(x))
	}
	vc.unsupportedf(x.Pos(), "identifier %s (%T)", x.Name, obj)
	return vc.unknown(x.Name, vc.typeOf(x))
}

// globalVar models a package-level variable as an (unknown but fixed)
// constant; error sentinels are distinct non-nil constants. Globals that are
// written anywhere in non-test code are havoced on every read.
func (vc *VC) globalVar(o *types.Var, pos token.Pos) Term {
	if vc.w.globalsWritten[o] {
		return vc.unknown("g."+o.Name(), o.Type())
	}
	if t, ok := vc.globals[o]; ok {
		return t
	}
	s := vc.ss.sortOf(o.Type())
	name := fmt.Sprintf("g.%s.%s", sanitize(o.Pkg().Name()), o.Name())
	// reuse the same symbol across the VC
	vc.gdecls = append(vc.gdecls, fmt.Sprintf("(declare-const %s %s)", name, s))
	tm := Term{name, s, o.Type()}
	if f := vc.rangeFacts(tm, o.Type(), 0); f.S != "true" {
		vc.gassumes = append(vc.gassumes, fmt.Sprintf("(assert %s)", f.S))
	}
	vc.globals[o] = tm
	if s == SErr {
		// resolve aliases of sentinels: var errDecimal = internal.ErrDecimal
		if init := vc.w.globalInit(o); init != nil {
			if root := vc.w.rootErrVar(o); root != nil && root != o {
				rt := vc.globalVar(root, pos)
				vc.gassumes = append(vc.gassumes, fmt.Sprintf("(assert (= %s %s))", name, rt.S))
				return tm
			}
		}
		vc.gassumes = append(vc.gassumes, fmt.Sprintf("(assert (not (= %s err.nil)))", name))
		vc.gassumes = append(vc.gassumes, fmt.Sprintf("(assert (= (err.id %s) %d))", name, vc.w.errID(o)))
		vc.gassumes = append(vc.gassumes, fmt.Sprintf("(assert (forall ((y! Err)) (! (= (err.is %s y!) (= y! %s)) :pattern ((err.is %s y!)))))", name, name, name))
		vc.needErrID()
		return tm
	}
	// immutable global with a simple initialiser: evaluate it
	if init := vc.w.globalInit(o); init != nil {
		if fi := vc.w.globalInitInfo(o); fi != nil {
			nd, na := len(vc.decls), len(vc.assumes)
			if v, ok := vc.evalGlobalInit(o, init, fi); ok {
				// definitions created while evaluating the initialiser are global
				vc.gdecls = append(vc.gdecls, vc.decls[nd:]...)
				vc.gassumes = append(vc.gassumes, vc.assumes[na:]...)
				vc.decls, vc.assumes = vc.decls[:nd], vc.assumes[:na]
				vc.gassumes = append(vc.gassumes, fmt.Sprintf("(assert (= %s %s))", name, v.S))
			}
		}
	}
	return tm
}

func (vc *VC) needErrID() {
	vc.ss.declare(&sortInfo{Name: "err$id", Kind: "const", Decl: "(declare-fun err.id (Err) Int)"})
}

func (vc *VC) evalGlobalInit(o *types.Var, init ast.Expr, info *types.Info) (Term, bool) {
	// only composite literals of constants and constant expressions
	ok := true
	ast.Inspect(init, func(n ast.Node) bool {
		switch n.(type) {
		case *ast.CallExpr, *ast.FuncLit:
			ok = false
		}
		return ok
	})
	if !ok {
		return Term{}, false
	}
	fr := &frame{info: info, pkgPath: o.Pkg().Path(), name: "init:" + o.Name()}
	vc.frames = append(vc.frames, fr)
	defer func() { vc.frames = vc.frames[:len(vc.frames)-1] }()
	st := &State{vars: map[types.Object]Value{}, pc: tBool(true)}
	saveSafety := vc.safety
	vc.safety = false
	v := vc.evalExpr(init, st)
	vc.safety = saveSafety
	tm, isT := v.(Term)
	return tm, isT
}

func (vc *VC) evalUnary(x *ast.UnaryExpr, st *State) Value {
	switch x.Op {
	case token.NOT:
		return withType(tNot(vc.term(vc.evalExpr(x.X, st), x.Pos())), vc.typeOf(x))
	case token.SUB:
		v := vc.term(vc.evalExpr(x.X, st), x.Pos())
		t := vc.typeOf(x)
		if v.Sort == SReal {
			return Term{fmt.Sprintf("(- %s)", v.S), SReal, t}
		}
		return vc.arith(Term{fmt.Sprintf("(- %s)", v.S), SInt, t}, t, st, x, "-")
	case token.ADD:
		return vc.evalExpr(x.X, st)
	case token.AND:
		// address-of: pointer to a copy of the value (unique-owner model)
		inner := vc.term(vc.evalExpr(x.X, st), x.Pos())
		pt := vc.typeOf(x)
		ps := vc.ss.sortOf(pt)
		if si := vc.ss.info[ps]; si != nil && si.Kind == "ptr" {
			return Term{fmt.Sprintf("(ref.%s %s)", ps, inner.S), ps, pt}
		}
		return vc.unknown("addr", pt)
	case token.XOR:
		vc.unsupportedf(x.Pos(), "bitwise complement")
		return vc.unknown("bitnot", vc.typeOf(x))
	}
	vc.unsupportedf(x.Pos(), "unary %s", x.Op)
	return vc.unknown("unary", vc.typeOf(x))
}

func withType(t Term, ty types.Type) Term { t.T = ty; return t }

// arith applies the integer arithmetic policy to an exact result `exact` of
// Go type t: in checked mode a no-wrap obligation is generated and the exact
// value is used; otherwise the value is wrapped.
func (vc *VC) arith(exact Term, t types.Type, st *State, site ast.Expr, op string) Term {
	lo, _ := intRange(t)
	if lo == nil {
		exact.T = t
		return exact
	}
	if vc.checked && !vc.siteWraps(site) {
		vc.oblige("nowrap", "", site.Pos(), st.pc, inRange(exact, t), "no overflow in `"+vc.src(site)+"`")
		exact.T = t
		return vc.define("ar", exact)
	}
	return vc.define("ar", wrapTo(exact, t))
}

func (vc *VC) siteWraps(site ast.Expr) bool {
	fr := vc.cur()
	if fr.fc == nil {
		return false
	}
	s := vc.src(site)
	for _, w := range fr.fc.Wraps {
		if w == s || w == "*" {
			return true
		}
	}
	return false
}

func (vc *VC) src(n ast.Node) string {
	var sb strings.Builder
	writeExpr(&sb, n)
	return sb.String()
}

func (vc *VC) evalBinary(x *ast.BinaryExpr, st *State) Value {
	t := vc.typeOf(x)
	switch x.Op {
	case token.LAND, token.LOR:
		l := vc.term(vc.evalExpr(x.X, st), x.Pos())
		// the right operand is only evaluated when needed: obligations inside it
		// are generated under the extended path condition
		taken := l
		if x.Op == token.LOR {
			taken = tNot(l)
		}
		st2 := st.clone()
		st2.pc = vc.definePC(tAnd(st.pc, taken))
		r := vc.term(vc.evalExpr(x.Y, st2), x.Pos())
		// effects of the right operand (calls that modify their receiver) happen
		// only when it is evaluated
		for o, nv := range st2.vars {
			ov, had := st.vars[o]
			if !had {
				st.vars[o] = nv
				continue
			}
			if sameValue(ov, nv) {
				continue
			}
			nt, ok1 := nv.(Term)
			ot, ok2 := ov.(Term)
			if ok1 && ok2 {
				st.vars[o] = vc.define(o.Name(), tIte(taken, nt, ot))
			} else {
				st.vars[o] = nv
			}
		}
		if x.Op == token.LAND {
			return withType(tAnd(l, r), t)
		}
		return withType(tOr(l, r), t)
	}
	l := vc.term(vc.evalExpr(x.X, st), x.Pos())
	r := vc.term(vc.evalExpr(x.Y, st), x.Pos())
	lt := vc.typeOf(x.X)
	switch x.Op {
	case token.EQL:
		return withType(vc.equal(l, r, lt, vc.typeOf(x.Y), x.Pos()), t)
	case token.NEQ:
		return withType(tNot(vc.equal(l, r, lt, vc.typeOf(x.Y), x.Pos())), t)
	}
	if l.Sort == SStr {
		switch x.Op {
		case token.ADD:
			return Term{fmt.Sprintf("(gs.cat %s %s)", l.S, r.S), SStr, t}
		case token.LSS, token.GTR, token.LEQ, token.GEQ:
			vc.ss.declare(&sortInfo{Name: "str$lt", Kind: "const", Decl: strLtDecl})
			lt := Term{fmt.Sprintf("(gs.lt %s %s)", l.S, r.S), SBool, t}
			gt := Term{fmt.Sprintf("(gs.lt %s %s)", r.S, l.S), SBool, t}
			switch x.Op {
			case token.LSS:
				return lt
			case token.GTR:
				return gt
			case token.LEQ:
				return withType(tNot(gt), t)
			default:
				return withType(tNot(lt), t)
			}
		}
	}
	if l.Sort == SReal || r.Sort == SReal {
		vc.unsupportedf(x.Pos(), "floating point %s", x.Op)
		return vc.unknown("float", t)
	}
	if l.Sort != SInt || r.Sort != SInt {
		vc.unsupportedf(x.Pos(), "binary %s on sorts %s,%s", x.Op, l.Sort, r.Sort)
		return vc.unknown("bin", t)
	}
	cmp := func(op string) Term { return Term{fmt.Sprintf("(%s %s %s)", op, l.S, r.S), SBool, t} }
	switch x.Op {
	case token.LSS:
		return cmp("<")
	case token.LEQ:
		return cmp("<=")
	case token.GTR:
		return cmp(">")
	case token.GEQ:
		return cmp(">=")
	case token.ADD:
		return vc.arith(Term{fmt.Sprintf("(+ %s %s)", l.S, r.S), SInt, t}, t, st, x, "+")
	case token.SUB:
		return vc.arith(Term{fmt.Sprintf("(- %s %s)", l.S, r.S), SInt, t}, t, st, x, "-")
	case token.MUL:
		return vc.arith(Term{fmt.Sprintf("(* %s %s)", l.S, r.S), SInt, t}, t, st, x, "*")
	case token.QUO:
		if vc.safety || vc.checked {
			vc.oblige("safe:div0", "", x.Pos(), st.pc, Term{fmt.Sprintf("(not (= %s 0))", r.S), SBool, nil}, "divisor non-zero in `"+vc.src(x)+"`")
		}
		return vc.arith(Term{fmt.Sprintf("(tdiv %s %s)", l.S, r.S), SInt, t}, t, st, x, "/")
	case token.REM:
		if vc.safety || vc.checked {
			vc.oblige("safe:div0", "", x.Pos(), st.pc, Term{fmt.Sprintf("(not (= %s 0))", r.S), SBool, nil}, "divisor non-zero in `"+vc.src(x)+"`")
		}
		return withType(vc.define("rem", Term{fmt.Sprintf("(trem %s %s)", l.S, r.S), SInt, t}), t)
	case token.AND, token.OR, token.XOR, token.SHL, token.SHR, token.AND_NOT:
		return vc.bitop(x, l, r, t, st)
	}
	vc.unsupportedf(x.Pos(), "binary operator %s", x.Op)
	return vc.unknown("bin", t)
}

// bitop: a few exact special cases, otherwise an uninterpreted function of
// the operands (deterministic, range-restricted).
func (vc *VC) bitop(x *ast.BinaryExpr, l, r Term, t types.Type, st *State) Term {
	info := vc.cur().info
	if tv, ok := info.Types[x.Y]; ok && tv.Value != nil && tv.Value.Kind() == constant.Int {
		if n, ok := constant.Int64Val(tv.Value); ok {
			switch x.Op {
			case token.SHL:
				if n >= 0 && n < 63 {
					m := new(big.Int).Lsh(big.NewInt(1), uint(n))
					return vc.arith(Term{fmt.Sprintf("(* %s %s)", l.S, m.String()), SInt, t}, t, st, x, "<<")
				}
			case token.SHR:
				if n >= 0 && n < 63 {
					m := new(big.Int).Lsh(big.NewInt(1), uint(n))
					// arithmetic shift = floor division
					return Term{fmt.Sprintf("(div %s %s)", l.S, m.String()), SInt, t}
				}
			case token.AND:
				// x & (2^k - 1) on non-negative x = x mod 2^k
				m := big.NewInt(n + 1)
				if n >= 0 && m.BitLen() > 0 && new(big.Int).And(m, big.NewInt(n)).Sign() == 0 {
					if lo, _ := intRange(vc.typeOf(x.X)); lo != nil && lo.Sign() == 0 {
						return Term{fmt.Sprintf("(mod %s %s)", l.S, m.String()), SInt, t}
					}
				}
			}
		}
	}
	// x | 2^k and x &^ 2^k, x & 2^k with a constant single-bit operand: exact
	// (bit k of x is floor(x / 2^k) mod 2, also for negative two's-complement x)
	for _, side := range []struct {
		c ast.Expr
		v Term
	}{{x.Y, l}, {x.X, r}} {
		if x.Op == token.AND_NOT && side.c != x.Y {
			continue
		}
		tv, ok := info.Types[side.c]
		if !ok || tv.Value == nil || tv.Value.Kind() != constant.Int {
			continue
		}
		n, ok := constant.Int64Val(tv.Value)
		if !ok || n <= 0 || n&(n-1) != 0 {
			continue
		}
		bit := fmt.Sprintf("(= (mod (div %s %d) 2) 1)", side.v.S, n)
		switch x.Op {
		case token.OR:
			return vc.define("bit", Term{fmt.Sprintf("(ite %s %s (+ %s %d))", bit, side.v.S, side.v.S, n), SInt, t})
		case token.AND:
			return vc.define("bit", Term{fmt.Sprintf("(ite %s %d 0)", bit, n), SInt, t})
		case token.AND_NOT:
			return vc.define("bit", Term{fmt.Sprintf("(ite %s (- %s %d) %s)", bit, side.v.S, n, side.v.S), SInt, t})
		case token.XOR:
			return vc.define("bit", Term{fmt.Sprintf("(ite %s (- %s %d) (+ %s %d))", bit, side.v.S, n, side.v.S, n), SInt, t})
		}
	}
	fn := "bit." + map[token.Token]string{token.AND: "and", token.OR: "or", token.XOR: "xor", token.SHL: "shl", token.SHR: "shr", token.AND_NOT: "andnot"}[x.Op]
	vc.ss.declare(&sortInfo{Name: Sort("fn$" + fn), Kind: "const", Decl: fmt.Sprintf("(declare-fun %s (Int Int) Int)", fn)})
	res := Term{fmt.Sprintf("(%s %s %s)", fn, l.S, r.S), SInt, t}
	res = vc.define("bit", res)
	vc.assume(tBool(true), inRange(res, t))
	if x.Op == token.AND {
		// 0 <= a&b <= b when b >= 0
		vc.assume(tBool(true), Term{fmt.Sprintf("(=> (>= %s 0) (and (<= 0 %s) (<= %s %s)))", r.S, res.S, res.S, r.S), SBool, nil})
		vc.assume(tBool(true), Term{fmt.Sprintf("(=> (>= %s 0) (and (<= 0 %s) (<= %s %s)))", l.S, res.S, res.S, l.S), SBool, nil})
	}
	return res
}

// equal: Go == on two values.
func (vc *VC) equal(l, r Term, lt, rt types.Type, pos token.Pos) Term {
	if l.Sort == "Nil" && r.Sort == "Nil" {
		return tBool(true)
	}
	if r.Sort == "Nil" {
		return vc.isNil(l, pos)
	}
	if l.Sort == "Nil" {
		return vc.isNil(r, pos)
	}
	if l.Sort == SStr && r.Sort == SStr {
		return vc.strEqual(l, r)
	}
	if l.Sort != r.Sort {
		// interface vs concrete comparison
		li, ri := vc.ss.info[l.Sort], vc.ss.info[r.Sort]
		if li != nil && li.Kind == "iface" && rt != nil {
			return tEq(l, vc.ss.inj(l.Sort, r, rt))
		}
		if ri != nil && ri.Kind == "iface" && lt != nil {
			return tEq(vc.ss.inj(r.Sort, l, lt), r)
		}
		vc.unsupportedf(pos, "comparison of sorts %s and %s", l.Sort, r.Sort)
		return vc.freshOfSort("cmp", SBool, nil)
	}
	if si := vc.ss.info[l.Sort]; si != nil && si.Kind == "struct" {
		// struct equality: field-wise so that string fields use string equality
		return vc.structEqual(l, r, si)
	}
	return tEq(l, r)
}

func (vc *VC) structEqual(l, r Term, si *sortInfo) Term {
	if l.S == r.S {
		return tBool(true)
	}
	var parts []Term
	for _, f := range si.Fields {
		lf := Term{fmt.Sprintf("(%s.%s %s)", l.Sort, f.Name, l.S), f.Sort, f.T}
		rf := Term{fmt.Sprintf("(%s.%s %s)", r.Sort, f.Name, r.S), f.Sort, f.T}
		parts = append(parts, vc.equal(lf, rf, f.T, f.T, token.NoPos))
	}
	// equality of all fields is equivalent to datatype equality
	return tAnd(parts...)
}

func (vc *VC) isNil(x Term, pos token.Pos) Term {
	switch x.Sort {
	case SErr:
		return tEq(x, Term{"err.nil", SErr, nil})
	case SFn:
		return tEq(x, Term{"fn.nil", SFn, nil})
	}
	si := vc.ss.info[x.Sort]
	if si == nil {
		vc.unsupportedf(pos, "nil comparison on sort %s", x.Sort)
		return vc.freshOfSort("isnil", SBool, nil)
	}
	switch si.Kind {
	case "ptr":
		return Term{fmt.Sprintf("((_ is nil.%s) %s)", x.Sort, x.S), SBool, nil}
	case "iface":
		return tEq(x, Term{fmt.Sprintf("nil.%s", x.Sort), x.Sort, nil})
	case "slice", "map":
		return Term{fmt.Sprintf("(isnil.%s %s)", x.Sort, x.S), SBool, nil}
	case "opaque":
		// the zero value of an opaque reference sort is nil
		vc.ss.declare(&sortInfo{Name: Sort("zero$" + string(x.Sort)), Kind: "const", Decl: fmt.Sprintf("(declare-const zero.%s %s)", x.Sort, x.Sort)})
		vc.ss.declare(&sortInfo{Name: Sort("isnil$" + string(x.Sort)), Kind: "const", Decl: fmt.Sprintf("(declare-fun isnil.%s (%s) Bool)\n(assert (isnil.%s zero.%s))", x.Sort, x.Sort, x.Sort, x.Sort)})
		return Term{fmt.Sprintf("(isnil.%s %s)", x.Sort, x.S), SBool, nil}
	}
	vc.unsupportedf(pos, "nil comparison on %s", si.Kind)
	return vc.freshOfSort("isnil", SBool, nil)
}

// strEqual expands equality with a literal into length and byte facts
// (strings are extensional), so that no string theory is needed.
func (vc *VC) strEqual(l, r Term) Term {
	ll, lok := vc.litValue(l)
	rl, rok := vc.litValue(r)
	if lok && rok {
		return tBool(ll == rl)
	}
	if rok {
		return vc.eqLit(l, rl, r)
	}
	if lok {
		return vc.eqLit(r, ll, l)
	}
	return tEq(l, r)
}

func (vc *VC) litValue(t Term) (string, bool) {
	if strings.HasPrefix(t.S, "lit.") {
		var id int
		if _, err := fmt.Sscanf(t.S, "lit.%d", &id); err == nil && id < len(vc.w.strOrder) {
			return vc.w.strOrder[id], true
		}
	}
	return "", false
}

func (vc *VC) eqLit(x Term, lit string, litTerm Term) Term {
	if len(lit) > 8 {
		return tEq(x, litTerm)
	}
	parts := []Term{{fmt.Sprintf("(= (gs.len %s) %d)", x.S, len(lit)), SBool, nil}}
	for i := 0; i < len(lit); i++ {
		parts = append(parts, Term{fmt.Sprintf("(= (gs.at %s %d) %d)", x.S, i, lit[i]), SBool, nil})
	}
	exp := tAnd(parts...)
	// both directions: equality with the literal constant iff same bytes
	return Term{fmt.Sprintf("(and (= %s %s) %s)", tEq(x, litTerm).S, exp.S, exp.S), SBool, nil}
}

func (vc *VC) deref(p Term, st *State, pos token.Pos) Term {
	si := vc.ss.info[p.Sort]
	if si != nil && si.Kind == "opaque" && p.T != nil {
		// pointer into a recursive data structure (opaque reference): the target
		// is unknown, but the nil check is still an obligation
		if pt, ok := types.Unalias(p.T).Underlying().(*types.Pointer); ok {
			if vc.safety {
				vc.oblige("safe:nil-deref", "", pos, st.pc, tNot(vc.isNil(p, pos)), "pointer is non-nil")
			}
			return vc.unknown("deref", pt.Elem())
		}
	}
	if si == nil || si.Kind != "ptr" {
		vc.unsupportedf(pos, "dereference of %s", p.Sort)
		if p.T != nil {
			if pt, ok := types.Unalias(p.T).Underlying().(*types.Pointer); ok {
				return vc.unknown("deref", pt.Elem())
			}
		}
		return vc.freshOfSort("deref", SInt, nil)
	}
	if vc.safety {
		vc.oblige("safe:nil-deref", "", pos, st.pc, Term{fmt.Sprintf("((_ is ref.%s) %s)", p.Sort, p.S), SBool, nil}, "pointer is non-nil")
	}
	return Term{fmt.Sprintf("(val.%s %s)", p.Sort, p.S), vc.ss.sortOf(si.Elem), si.Elem}
}

func (vc *VC) evalSelector(x *ast.SelectorExpr, st *State) Value {
	info := vc.cur().info
	if sel, ok := info.Selections[x]; ok {
		switch sel.Kind() {
		case types.FieldVal:
			base := vc.term(vc.evalExpr(x.X, st), x.Pos())
			return vc.selectPath(base, sel.Recv(), sel.Index(), st, x.Pos())
		case types.MethodVal:
			fn := sel.Obj().(*types.Func)
			recv := vc.evalExpr(x.X, st)
			return &FuncRef{Obj: fn, Recv: recv, RecvExpr: x.X}
		case types.MethodExpr:
			return &FuncRef{Obj: sel.Obj().(*types.Func)}
		}
	}
	// qualified identifier pkg.Name
	return vc.evalIdent(x.Sel, st)
}

// selectPath follows a field index path (with implicit dereferences).
func (vc *VC) selectPath(base Term, recvT types.Type, path []int, st *State, pos token.Pos) Term {
	cur := base
	t := recvT
	for _, idx := range path {
		t = types.Unalias(t)
		if tp, ok := t.(*types.TypeParam); ok {
			if a, ok := vc.ss.tparams[tp.Obj().Name()]; ok {
				t = a
			}
		}
		if pt, ok := t.Underlying().(*types.Pointer); ok {
			cur = vc.deref(cur, st, pos)
			t = pt.Elem()
		}
		stt, ok := t.Underlying().(*types.Struct)
		if !ok {
			vc.unsupportedf(pos, "field selection on %v", t)
			return vc.unknown("sel", nil)
		}
		f := stt.Field(idx)
		ft, ok := vc.ss.field(cur, f.Name())
		if !ok {
			// opaque struct: field read is an uninterpreted observer
			fs := vc.ss.sortOf(f.Type())
			fn := fmt.Sprintf("fld.%s.%s", cur.Sort, f.Name())
			vc.ss.declare(&sortInfo{Name: Sort("fn$" + fn), Kind: "const", Decl: fmt.Sprintf("(declare-fun %s (%s) %s)", fn, cur.Sort, fs)})
			ft = Term{fmt.Sprintf("(%s %s)", fn, cur.S), fs, f.Type()}
		}
		cur = ft
		t = f.Type()
	}
	return cur
}

func (vc *VC) evalIndex(x *ast.IndexExpr, st *State) Value {
	info := vc.cur().info
	// generic function instantiation?
	if tv, ok := info.Types[x.X]; ok {
		if _, isSig := tv.Type.(*types.Signature); isSig {
			return vc.evalExpr(x.X, st)
		}
	}
	base := vc.term(vc.evalExpr(x.X, st), x.Pos())
	bt := vc.typeOf(x.X)
	v, _ := vc.indexValue(base, bt, x.Index, st, x.Pos(), false)
	return v
}

func (vc *VC) indexValue(base Term, bt types.Type, idxE ast.Expr, st *State, pos token.Pos, commaOk bool) (Term, Term) {
	if pt, ok := types.Unalias(bt).Underlying().(*types.Pointer); ok {
		base = vc.deref(base, st, pos)
		bt = pt.Elem()
	}
	idx := vc.term(vc.evalExpr(idxE, st), pos)
	switch u := vc.underlying(bt).(type) {
	case *types.Basic: // string
		if vc.safety {
			vc.oblige("safe:index", "", pos, st.pc, Term{fmt.Sprintf("(and (<= 0 %s) (< %s (gs.len %s)))", idx.S, idx.S, base.S), SBool, nil}, "string index in range: `"+vc.src(idxE)+"`")
		}
		return Term{fmt.Sprintf("(gs.at %s %s)", base.S, idx.S), SInt, types.Typ[types.Uint8]}, Term{}
	case *types.Slice:
		if vc.safety {
			vc.oblige("safe:index", "", pos, st.pc, Term{fmt.Sprintf("(and (<= 0 %s) (< %s (len.%s %s)))", idx.S, idx.S, base.Sort, base.S), SBool, nil}, "slice index in range: `"+vc.src(idxE)+"`")
		}
		return Term{fmt.Sprintf("(select (arr.%s %s) %s)", base.Sort, base.S, idx.S), vc.ss.sortOf(u.Elem()), u.Elem()}, Term{}
	case *types.Array:
		if vc.safety {
			vc.oblige("safe:index", "", pos, st.pc, Term{fmt.Sprintf("(and (<= 0 %s) (< %s %d))", idx.S, idx.S, u.Len()), SBool, nil}, "array index in range")
		}
		return Term{fmt.Sprintf("(select %s %s)", base.S, idx.S), vc.ss.sortOf(u.Elem()), u.Elem()}, Term{}
	case *types.Map:
		key := vc.convertTo(idx, vc.typeOf(idxE), u.Key(), pos)
		has := Term{fmt.Sprintf("(select (has.%s %s) %s)", base.Sort, base.S, key.S), SBool, types.Typ[types.Bool]}
		got := Term{fmt.Sprintf("(select (get.%s %s) %s)", base.Sort, base.S, key.S), vc.ss.sortOf(u.Elem()), u.Elem()}
		z := vc.ss.zero(u.Elem())
		return tIte(has, got, z), has
	}
	vc.unsupportedf(pos, "index on %v", bt)
	return vc.unknown("idx", nil), vc.freshOfSort("ok", SBool, nil)
}

func (vc *VC) underlying(t types.Type) types.Type {
	t = types.Unalias(t)
	if tp, ok := t.(*types.TypeParam); ok {
		if a, ok := vc.ss.tparams[tp.Obj().Name()]; ok {
			return vc.underlying(a)
		}
		return t
	}
	return t.Underlying()
}

func (vc *VC) evalSliceExpr(x *ast.SliceExpr, st *State) Value {
	base := vc.term(vc.evalExpr(x.X, st), x.Pos())
	bt := vc.typeOf(x.X)
	var lo, hi Term
	lo = tInt(0)
	if x.Low != nil {
		lo = vc.term(vc.evalExpr(x.Low, st), x.Pos())
	}
	switch u := vc.underlying(bt).(type) {
	case *types.Basic:
		if x.High != nil {
			hi = vc.term(vc.evalExpr(x.High, st), x.Pos())
		} else {
			hi = Term{fmt.Sprintf("(gs.len %s)", base.S), SInt, nil}
		}
		if vc.safety {
			vc.oblige("safe:slice", "", x.Pos(), st.pc, Term{fmt.Sprintf("(and (<= 0 %s) (<= %s %s) (<= %s (gs.len %s)))", lo.S, lo.S, hi.S, hi.S, base.S), SBool, nil}, "string slice bounds: `"+vc.src(x)+"`")
		}
		if x.Low == nil && x.High == nil {
			return base
		}
		return Term{fmt.Sprintf("(gs.sub %s %s %s)", base.S, lo.S, hi.S), SStr, vc.typeOf(x)}
	case *types.Slice:
		if x.High != nil {
			hi = vc.term(vc.evalExpr(x.High, st), x.Pos())
		} else {
			hi = Term{fmt.Sprintf("(len.%s %s)", base.Sort, base.S), SInt, nil}
		}
		if vc.safety {
			// s[a:b] is legal up to cap(s); capacity is not modelled, so the
			// obligation is the stronger b <= len(s) unless cap is mentioned
			bound := fmt.Sprintf("(len.%s %s)", base.Sort, base.S)
			if x.High != nil {
				bound = vc.capTerm(base).S
			}
			vc.oblige("safe:slice", "", x.Pos(), st.pc, Term{fmt.Sprintf("(and (<= 0 %s) (<= %s %s) (<= %s %s))", lo.S, lo.S, hi.S, hi.S, bound), SBool, nil}, "slice bounds: `"+vc.src(x)+"`")
		}
		if x.Low == nil && x.High == nil {
			return base
		}
		_ = u
		return vc.subSlice(base, lo, hi)
	case *types.Array:
		vc.unsupportedf(x.Pos(), "slicing an array")
	}
	vc.unsupportedf(x.Pos(), "slice expression on %v", bt)
	return vc.unknown("slice", vc.typeOf(x))
}

// capTerm: capacity is an uninterpreted observer with cap >= len.
func (vc *VC) capTerm(s Term) Term {
	fn := fmt.Sprintf("cap.%s", s.Sort)
	vc.ss.declare(&sortInfo{Name: Sort("fn$" + fn), Kind: "const", Decl: fmt.Sprintf("(declare-fun %s (%s) Int)\n(assert (forall ((s %s)) (! (>= (%s s) (len.%s s)) :pattern ((%s s)))))", fn, s.Sort, s.Sort, fn, s.Sort, fn)})
	return Term{fmt.Sprintf("(%s %s)", fn, s.S), SInt, nil}
}

// subSlice builds s[lo:hi] with shifted contents.
func (vc *VC) subSlice(base, lo, hi Term) Term {
	if lo.S == "0" {
		return Term{fmt.Sprintf("(mk.%s %s (arr.%s %s) false)", base.Sort, hi.S, base.Sort, base.S), base.Sort, base.T}
	}
	res := vc.freshOfSort("sub", base.Sort, base.T)
	es := vc.ss.sortOf(vc.ss.info[base.Sort].Elem)
	_ = es
	vc.assumes = append(vc.assumes, fmt.Sprintf("(assert (= (len.%s %s) (- %s %s)))", base.Sort, res.S, hi.S, lo.S))
	vc.assumes = append(vc.assumes, fmt.Sprintf("(assert (forall ((k! Int)) (! (= (select (arr.%s %s) k!) (select (arr.%s %s) (+ k! %s))) :pattern ((select (arr.%s %s) k!)))))", base.Sort, res.S, base.Sort, base.S, lo.S, base.Sort, res.S))
	return res
}

func (vc *VC) evalComposite(x *ast.CompositeLit, st *State) Value {
	t := vc.typeOf(x)
	if t == nil {
		vc.unsupportedf(x.Pos(), "composite literal without type")
		return vc.unknown("lit", nil)
	}
	switch u := vc.underlying(t).(type) {
	case *types.Struct:
		s := vc.ss.sortOf(t)
		si := vc.ss.info[s]
		if si == nil || si.Kind != "struct" {
			// opaque struct literal
			for _, el := range x.Elts {
				vc.evalExpr(el, st)
			}
			if len(x.Elts) == 0 {
				return vc.ss.zeroOfSort(s, t)
			}
			return vc.unknown("opaque-lit", t)
		}
		vals := make([]Term, len(si.Fields))
		for i, f := range si.Fields {
			vals[i] = vc.ss.zeroOfSort(f.Sort, f.T)
		}
		for i, el := range x.Elts {
			if kv, ok := el.(*ast.KeyValueExpr); ok {
				name := kv.Key.(*ast.Ident).Name
				for j, f := range si.Fields {
					if f.Name == name {
						v := vc.term(vc.evalExpr(kv.Value, st), kv.Pos())
						vals[j] = vc.convertTo(v, vc.typeOf(kv.Value), f.T, kv.Pos())
					}
				}
			} else {
				v := vc.term(vc.evalExpr(el, st), el.Pos())
				vals[i] = vc.convertTo(v, vc.typeOf(el), si.Fields[i].T, el.Pos())
			}
		}
		if len(vals) == 0 {
			return Term{fmt.Sprintf("mk.%s", s), s, t}
		}
		var parts []string
		for _, v := range vals {
			parts = append(parts, v.S)
		}
		lit := Term{fmt.Sprintf("(mk.%s %s)", s, strings.Join(parts, " ")), s, t}
		// building a value of a type with a representation invariant: obligation
		if n, ok := types.Unalias(t).(*types.Named); ok && n.Obj().Pkg() != nil {
			for _, ti := range vc.w.cs.ValInvs {
				if ti.Pkg == n.Obj().Pkg().Path() && ti.Type == n.Obj().Name() {
					named := vc.define("lit", lit)
					env := &SpecEnv{vc: vc, vars: map[string]Value{}, old: map[string]Value{}, bound: map[string]Term{"self": named}, pkg: ti.Pkg}
					vc.inValInv = true
					c := vc.specBool(ti.Clause.Expr, env)
					vc.inValInv = false
					vc.oblige("valinv", n.Obj().Name(), x.Pos(), st.pc, c, "representation invariant of "+n.Obj().Name()+": "+ti.Clause.Src)
				}
			}
		}
		return lit
	case *types.Slice:
		s := vc.ss.sortOf(t)
		es := vc.ss.sortOf(u.Elem())
		arr := fmt.Sprintf("((as const (Array Int %s)) %s)", es, vc.ss.zero(u.Elem()).S)
		n := 0
		for _, el := range x.Elts {
			if kv, ok := el.(*ast.KeyValueExpr); ok {
				vc.unsupportedf(kv.Pos(), "keyed slice literal")
				el = kv.Value
			}
			v := vc.term(vc.evalElem(el, u.Elem(), st), el.Pos())
			v = vc.convertTo(v, vc.typeOf(el), u.Elem(), el.Pos())
			arr = fmt.Sprintf("(store %s %d %s)", arr, n, v.S)
			n++
		}
		return vc.define("slit", Term{fmt.Sprintf("(mk.%s %d %s false)", s, n, arr), s, t})
	case *types.Array:
		s := vc.ss.sortOf(t)
		arr := fmt.Sprintf("((as const %s) %s)", s, vc.ss.zero(u.Elem()).S)
		for i, el := range x.Elts {
			if kv, ok := el.(*ast.KeyValueExpr); ok {
				el = kv.Value
			}
			v := vc.term(vc.evalElem(el, u.Elem(), st), el.Pos())
			arr = fmt.Sprintf("(store %s %d %s)", arr, i, v.S)
		}
		return Term{arr, s, t}
	case *types.Map:
		s := vc.ss.sortOf(t)
		cur := vc.emptyMap(s, u)
		for _, el := range x.Elts {
			kv, ok := el.(*ast.KeyValueExpr)
			if !ok {
				continue
			}
			k := vc.term(vc.evalElem(kv.Key, u.Key(), st), kv.Pos())
			k = vc.convertTo(k, vc.typeOf(kv.Key), u.Key(), kv.Pos())
			v := vc.term(vc.evalElem(kv.Value, u.Elem(), st), kv.Pos())
			v = vc.convertTo(v, vc.typeOf(kv.Value), u.Elem(), kv.Pos())
			cur = vc.mapPut(cur, k, v)
		}
		return vc.define("mlit", cur)
	}
	vc.unsupportedf(x.Pos(), "composite literal of %v", t)
	return vc.unknown("lit", t)
}

// evalElem evaluates an element of a composite literal whose type may be elided.
func (vc *VC) evalElem(el ast.Expr, et types.Type, st *State) Value {
	if cl, ok := el.(*ast.CompositeLit); ok && cl.Type == nil {
		// elided type: types.Info records the type for the literal
		return vc.evalComposite(cl, st)
	}
	return vc.evalExpr(el, st)
}

func (vc *VC) emptyMap(s Sort, u *types.Map) Term {
	ks := vc.ss.sortOf(u.Key())
	vs := vc.ss.sortOf(u.Elem())
	return Term{fmt.Sprintf("(mk.%s ((as const (Array %s Bool)) false) ((as const (Array %s %s)) %s) 0 false)", s, ks, ks, vs, vc.ss.zero(u.Elem()).S), s, u}
}

func (vc *VC) mapPut(m, k, v Term) Term {
	s := m.Sort
	m = vc.define("m", m)
	return Term{fmt.Sprintf("(mk.%s (store (has.%s %s) %s true) (store (get.%s %s) %s %s) (ite (select (has.%s %s) %s) (card.%s %s) (+ (card.%s %s) 1)) false)",
		s, s, m.S, k.S, s, m.S, k.S, v.S, s, m.S, k.S, s, m.S, s, m.S), s, m.T}
}

func (vc *VC) mapDel(m, k Term) Term {
	s := m.Sort
	m = vc.define("m", m)
	return Term{fmt.Sprintf("(mk.%s (store (has.%s %s) %s false) (get.%s %s) (ite (select (has.%s %s) %s) (- (card.%s %s) 1) (card.%s %s)) (isnil.%s %s))",
		s, s, m.S, k.S, s, m.S, s, m.S, k.S, s, m.S, s, m.S, s, m.S), s, m.T}
}

// convertTo handles implicit conversions on assignment: concrete -> interface,
// untyped nil -> typed nil, interface -> wider interface.
func (vc *VC) convertTo(v Term, from, to types.Type, pos token.Pos) Term {
	if to == nil {
		return v
	}
	if v.Sort == sHState {
		// a hasher held as its abstract state (hasher.go) stays what it is
		return v
	}
	ts := vc.ss.sortOf(to)
	if v.Sort == ts {
		if v.T == nil {
			v.T = to
		}
		return v
	}
	if v.Sort == "Nil" {
		return vc.ss.zeroOfSort(ts, to)
	}
	if ts == SErr {
		// concrete error type converted to error: opaque non-nil error
		e := vc.freshOfSort("err", SErr, to)
		vc.assumes = append(vc.assumes, fmt.Sprintf("(assert (not (= %s err.nil)))", e.S))
		return e
	}
	if si := vc.ss.info[ts]; si != nil && si.Kind == "iface" {
		if from == nil {
			from = v.T
		}
		if from != nil {
			if fi := vc.ss.info[v.Sort]; fi != nil && fi.Kind == "iface" {
				// interface to interface with different sorts: not modelled
				vc.unsupportedf(pos, "interface conversion %s -> %s", v.Sort, ts)
				return vc.unknown("iconv", to)
			}
			ct := from
			if b, ok := ct.(*types.Basic); ok && b.Info()&types.IsUntyped != 0 {
				ct = types.Default(ct)
			}
			return vc.ss.inj(ts, v, ct)
		}
	}
	if ts == SFn {
		return vc.freshOfSort("fn", SFn, to)
	}
	vc.unsupportedf(pos, "implicit conversion %s -> %s", v.Sort, ts)
	return vc.unknown("conv", to)
}

// evalTypeAssert: x.(T). Returns (value, ok).
func (vc *VC) evalTypeAssert(x *ast.TypeAssertExpr, st *State, commaOk bool) (Term, Term) {
	v := vc.term(vc.evalExpr(x.X, st), x.Pos())
	to := vc.typeOf(x.Type)
	return vc.typeAssert(v, to, st, x.Pos(), commaOk)
}

func (vc *VC) typeAssert(v Term, to types.Type, st *State, pos token.Pos, commaOk bool) (Term, Term) {
	if v.Sort == SErr {
		if commaOk {
			// `e, ok := err.(T)`: which concrete error types exist is not modelled;
			// both outcomes are possible (only the nil error certainly fails) and
			// the asserted value is unknown
			ok := vc.freshOfSort("ok", SBool, nil)
			vc.assume(st.pc, tImp(tEq(v, Term{"err.nil", SErr, nil}), tNot(ok)))
			return vc.unknown("ta", to), ok
		}
		vc.unsupportedf(pos, "type assertion on error value")
		return vc.unknown("ta", to), vc.freshOfSort("ok", SBool, nil)
	}
	si := vc.ss.info[v.Sort]
	if si == nil || si.Kind != "iface" {
		vc.unsupportedf(pos, "type assertion on sort %s", v.Sort)
		return vc.unknown("ta", to), vc.freshOfSort("ok", SBool, nil)
	}
	if ti, ok := vc.underlying(to).(*types.Interface); ok {
		// assertion to an interface type: ok iff the dynamic type implements it
		ts := vc.ss.sortOf(to)
		if ts != v.Sort {
			vc.unsupportedf(pos, "type assertion to interface %v of a different sort", to)
			return vc.unknown("ta", to), vc.freshOfSort("ok", SBool, nil)
		}
		impls := vc.w.implementers(ti, typeKey(to), to)
		var alts []Term
		for _, it := range impls {
			alts = append(alts, vc.ss.hasTag(v.Sort, v, it))
		}
		ok := tOr(alts...)
		if !commaOk && vc.safety {
			vc.oblige("safe:type-assert", "", pos, st.pc, ok, "type assertion to "+to.String()+" cannot fail")
		}
		res := v
		res.T = to
		return res, ok
	}
	ok := vc.ss.hasTag(v.Sort, v, to)
	if !commaOk && vc.safety {
		vc.oblige("safe:type-assert", "", pos, st.pc, ok, "type assertion to "+to.String()+" cannot fail")
	}
	val := vc.ss.proj(v.Sort, v, to)
	if commaOk {
		// named, so that the value can occur in quantifier patterns (an `ite`
		// term cannot)
		val = vc.define("ta", tIte(ok, val, vc.ss.zero(to)))
	}
	return val, ok
}

// ------------------------------------------------------ printing source text

func writeExpr(sb *strings.Builder, n ast.Node) {
	switch x := n.(type) {
	case *ast.Ident:
		sb.WriteString(x.Name)
	case *ast.BasicLit:
		sb.WriteString(x.Value)
	case *ast.BinaryExpr:
		writeExpr(sb, x.X)
		sb.WriteString(" " + x.Op.String() + " ")
		writeExpr(sb, x.Y)
	case *ast.UnaryExpr:
		sb.WriteString(x.Op.String())
		writeExpr(sb, x.X)
	case *ast.ParenExpr:
		sb.WriteString("(")
		writeExpr(sb, x.X)
		sb.WriteString(")")
	case *ast.SelectorExpr:
		writeExpr(sb, x.X)
		sb.WriteString("." + x.Sel.Name)
	case *ast.IndexExpr:
		writeExpr(sb, x.X)
		sb.WriteString("[")
		writeExpr(sb, x.Index)
		sb.WriteString("]")
	case *ast.SliceExpr:
		writeExpr(sb, x.X)
		sb.WriteString("[")
		if x.Low != nil {
			writeExpr(sb, x.Low)
		}
		sb.WriteString(":")
		if x.High != nil {
			writeExpr(sb, x.High)
		}
		sb.WriteString("]")
	case *ast.CallExpr:
		writeExpr(sb, x.Fun)
		sb.WriteString("(")
		for i, a := range x.Args {
			if i > 0 {
				sb.WriteString(", ")
			}
			writeExpr(sb, a)
		}
		if x.Ellipsis != token.NoPos {
			sb.WriteString("...")
		}
		sb.WriteString(")")
	case *ast.StarExpr:
		sb.WriteString("*")
		writeExpr(sb, x.X)
	case *ast.TypeAssertExpr:
		writeExpr(sb, x.X)
		sb.WriteString(".(")
		if x.Type != nil {
			writeExpr(sb, x.Type)
		} else {
			sb.WriteString("type")
		}
		sb.WriteString(")")
	case *ast.CompositeLit:
		if x.Type != nil {
			writeExpr(sb, x.Type)
		}
		sb.WriteString("{…}")
	case *ast.ArrayType:
		sb.WriteString("[]")
		writeExpr(sb, x.Elt)
	case *ast.FuncLit:
		sb.WriteString("func(…){…}")
	case *ast.IncDecStmt:
		writeExpr(sb, x.X)
		sb.WriteString(x.Tok.String())
	case *ast.AssignStmt:
		for i, l := range x.Lhs {
			if i > 0 {
				sb.WriteString(", ")
			}
			writeExpr(sb, l)
		}
		sb.WriteString(" " + x.Tok.String() + " ")
		for i, r := range x.Rhs {
			if i > 0 {
				sb.WriteString(", ")
			}
			writeExpr(sb, r)
		}
	case *ast.ExprStmt:
		writeExpr(sb, x.X)
	case *ast.ReturnStmt:
		sb.WriteString("return")
		for i, r := range x.Results {
			if i == 0 {
				sb.WriteString(" ")
			} else {
				sb.WriteString(", ")
			}
			writeExpr(sb, r)
		}
	case *ast.BranchStmt:
		sb.WriteString(x.Tok.String())
		if x.Label != nil {
			sb.WriteString(" " + x.Label.Name)
		}
	default:
		fmt.Fprintf(sb, "<%T>", n)
	}
}
