package main

// Frame checker: proves that a function writes only memory it allocated
// itself ("assigns nothing visible to the caller"), transitively over its
// callees in the repository. This is the `assigns`/`modifies` side of the
// contracts; it is decided syntactically (flow-insensitive freshness of local
// variables), never by the solver.
//
// A write is a store through a pointer, slice element, map element (incl.
// delete/clear/copy) or an append whose first operand may share its backing
// array. The written object is *fresh* if the root variable only ever holds
// values allocated in this function (make, new, composite literals, clones,
// results of functions that return fresh memory, append to fresh/nil). A
// write whose root is a parameter, receiver, package-level variable or a
// local that may hold non-fresh memory is a *shared write*.
//
// `frameclean <PROP> <Func>...` in a contract file demands that the listed
// functions (entry points) have no shared write, directly or through any
// callee. `noleak <PROP> <Func>...` demands in addition that reference-typed
// results are fresh (accessors do not hand out internal state).

import (
	"fmt"
	"go/ast"
	"go/token"
	"go/types"
	"sort"
	"strings"
)

type frameSummary struct {
	key        string
	writes     []string     // descriptions of direct shared writes
	modParams  map[int]bool // parameter indexes (receiver = -1) written through
	deepParams map[int]bool // ... by a write that is not an assignment to the parameter's own pointee (`*p = v`, `p.f = v`)
	shallowMsg map[string]bool
	calls      []frameCall
	freshRes   bool // all reference-typed results are fresh
	leaks      []string
	done       bool
	inProgress bool
}

type frameCall struct {
	callee string
	pos    string
	// for each callee parameter index (receiver -1): is the argument shared, and from which of our params does it derive
	args map[int]frameArg
}

type frameArg struct {
	shared    bool
	fromParam int // -2 none
	text      string
	exact     bool // the argument is one of our pointer parameters itself (possibly converted)
}

type frameChecker struct {
	w         *World
	sums      map[string]*frameSummary
	implCache map[string][]string
}

// stdlib callees: which parameters (receiver = -1) they write through.
var stdlibMods = map[string][]int{
	"encoding/json.Unmarshal": {1}, "encoding/json.Decoder.Decode": {-1, 0},
	"slices.Sort": {0}, "slices.SortFunc": {0}, "slices.SortStableFunc": {0}, "slices.Reverse": {0}, "sort.Slice": {0}, "sort.Strings": {0},
	"bytes.Buffer.Write": {-1}, "bytes.Buffer.WriteByte": {-1}, "bytes.Buffer.WriteRune": {-1}, "bytes.Buffer.WriteString": {-1}, "bytes.Buffer.Reset": {-1},
	"strings.Builder.Write": {-1}, "strings.Builder.WriteByte": {-1}, "strings.Builder.WriteRune": {-1}, "strings.Builder.WriteString": {-1},
	"io.Writer.Write": {-1}, "io.Reader.Read": {-1, 0}, "fmt.Fprintf": {0}, "fmt.Fprint": {0}, "fmt.Fprintln": {0},
	"encoding/json.Encoder.Encode": {-1}, "hash.Hash.Write": {-1}, "hash/fnv.sum64a.Write": {-1}, "encoding/binary.Write": {0},
	"slices.CompactFunc": {0}, "slices.Compact": {0}, "slices.Delete": {0}, "slices.DeleteFunc": {0}, "slices.Insert": {0}, "sync.Map.Store": {-1}, "sync.Map.Delete": {-1}, "sync.Map.LoadOrStore": {-1},
}

// pureForeign: standard-library callees known not to write through their
// arguments (read-only packages and individual functions).
func pureForeign(key string) bool {
	if strings.HasPrefix(key, "?") {
		// call through a function value (closure, callback): the value's body is
		// analysed where it is defined; user callbacks are outside the claim
		return true
	}
	for _, p := range []string{"fmt.S", "fmt.Errorf", "strconv.", "strings.", "errors.", "unicode.", "unicode/utf8.", "math.", "math/bits.", "time.", "net/netip.",
		"cmp.", "context.", "iter.", "reflect.", "regexp.", "path.", "os.", "sync/atomic.Load"} {
		if strings.HasPrefix(key, p) {
			return !strings.HasPrefix(key, "strings.Builder.") || false
		}
	}
	switch key {
	case "slices.Clone", "slices.Contains", "slices.ContainsFunc", "slices.Index", "slices.IndexFunc", "slices.Equal", "slices.EqualFunc", "slices.Collect",
		"slices.Concat", "slices.Values", "slices.All", "slices.Max", "slices.Min", "slices.BinarySearch", "slices.BinarySearchFunc", "slices.Compare", "slices.Sorted",
		"maps.Clone", "maps.Keys", "maps.Values", "maps.All", "maps.Collect", "maps.Equal",
		"bytes.Equal", "bytes.Compare", "bytes.HasPrefix", "bytes.HasSuffix", "bytes.Index", "bytes.IndexByte", "bytes.Join", "bytes.Contains", "bytes.Clone",
		"bytes.Buffer.Bytes", "bytes.Buffer.String", "bytes.Buffer.Len", "bytes.NewBuffer", "bytes.NewReader", "bytes.TrimSpace",
		"encoding/json.Marshal", "encoding/json.MarshalIndent", "encoding/json.Valid", "encoding/json.NewDecoder", "encoding/json.NewEncoder",
		"hash/fnv.New64", "hash/fnv.New64a", "hash.Hash64.Sum64", "hash.Hash.Sum", "sort.Search", "sort.SearchStrings",
		"sync.Map.Load", "sync.RWMutex.RLock", "sync.RWMutex.RUnlock", "io.ReadAll", "bufio.NewReader", "bufio.NewWriter",
		"error.Error", "fmt.Stringer.String":
		return true
	}
	return false
}

func (fcx *frameChecker) summary(key string) *frameSummary {
	if s, ok := fcx.sums[key]; ok {
		return s
	}
	s := &frameSummary{key: key, modParams: map[int]bool{}, deepParams: map[int]bool{}, shallowMsg: map[string]bool{}, freshRes: true}
	fcx.sums[key] = s
	fi := fcx.w.funcs[key]
	if fi == nil || fi.Decl.Body == nil {
		s.done = true
		return s
	}
	s.inProgress = true
	fcx.analyzeFlow(fi, s)
	s.inProgress = false
	s.done = true
	return s
}

func isRefType(t types.Type) bool {
	if t == nil {
		return false
	}
	switch u := types.Unalias(t).Underlying().(type) {
	case *types.Pointer, *types.Slice, *types.Map, *types.Chan, *types.Signature:
		return true
	case *types.Interface:
		return true
	case *types.Struct:
		for i := 0; i < u.NumFields(); i++ {
			if isRefType(u.Field(i).Type()) {
				return true
			}
		}
	}
	return false
}

func (fcx *frameChecker) analyze(fi *FuncInfo, s *frameSummary) {
	info := fi.Pkg.TypesInfo
	sig := fi.Obj.Type().(*types.Signature)
	// parameter objects
	paramIdx := map[types.Object]int{}
	if fi.Decl.Recv != nil && len(fi.Decl.Recv.List) > 0 && len(fi.Decl.Recv.List[0].Names) > 0 {
		if o := info.Defs[fi.Decl.Recv.List[0].Names[0]]; o != nil {
			paramIdx[o] = -1
		}
	}
	idx := 0
	if fi.Decl.Type.Params != nil {
		for _, fld := range fi.Decl.Type.Params.List {
			if len(fld.Names) == 0 {
				idx++
				continue
			}
			for _, n := range fld.Names {
				if o := info.Defs[n]; o != nil {
					paramIdx[o] = idx
				}
				idx++
			}
		}
	}
	_ = sig
	// 1. freshness of local variables (flow-insensitive fixpoint)
	nonFresh := map[types.Object]bool{}
	nonFreshPath := map[string]bool{} // "x.f" paths of local struct values that received non-fresh values
	origin := map[types.Object]int{}  // param a local derives from (-2: none/unknown)
	var isFresh func(e ast.Expr) bool
	var rootOf func(e ast.Expr) (types.Object, bool) // root var, and whether the path dereferences (writes shared memory of root)
	rootOf = func(e ast.Expr) (types.Object, bool) {
		switch x := ast.Unparen(e).(type) {
		case *ast.Ident:
			return info.ObjectOf(x), false
		case *ast.SelectorExpr:
			if sel, ok := info.Selections[x]; ok && sel.Kind() == types.FieldVal {
				o, d := rootOf(x.X)
				if sel.Indirect() {
					d = true
				}
				if t := info.TypeOf(x.X); t != nil {
					if _, isPtr := types.Unalias(t).Underlying().(*types.Pointer); isPtr {
						d = true
					}
				}
				return o, d
			}
			// qualified identifier: package-level variable
			return info.ObjectOf(x.Sel), false
		case *ast.IndexExpr:
			o, d := rootOf(x.X)
			if t := info.TypeOf(x.X); t != nil {
				switch types.Unalias(t).Underlying().(type) {
				case *types.Slice, *types.Map, *types.Pointer:
					d = true
				}
			}
			return o, d
		case *ast.StarExpr:
			o, _ := rootOf(x.X)
			return o, true
		case *ast.SliceExpr:
			return rootOf(x.X)
		case *ast.CallExpr, *ast.TypeAssertExpr:
			return nil, true
		}
		return nil, false
	}
	isFresh = func(e ast.Expr) bool {
		switch x := ast.Unparen(e).(type) {
		case *ast.CompositeLit:
			return true
		case *ast.BasicLit, *ast.FuncLit:
			return true
		case *ast.UnaryExpr:
			if x.Op == token.AND {
				if _, ok := ast.Unparen(x.X).(*ast.CompositeLit); ok {
					return true
				}
				// address of a local variable: fresh iff the variable is local (not a param deref)
				if o, d := rootOf(x.X); o != nil && !d {
					if _, isParam := paramIdx[o]; !isParam {
						if v, ok := o.(*types.Var); ok && v.Pkg() != nil && v.Parent() != v.Pkg().Scope() {
							return true
						}
					}
				}
				return false
			}
			return true
		case *ast.Ident:
			if x.Name == "nil" {
				return true
			}
			o := info.ObjectOf(x)
			if _, ok := o.(*types.Const); ok {
				return true
			}
			if v, ok := o.(*types.Var); ok {
				if !isRefType(v.Type()) {
					return true
				}
				if _, isParam := paramIdx[o]; isParam {
					return false
				}
				if v.Pkg() != nil && v.Parent() == v.Pkg().Scope() {
					return false
				}
				return !nonFresh[o]
			}
			return true
		case *ast.CallExpr:
			if tv, ok := info.Types[x.Fun]; ok && tv.IsType() {
				// conversion: as fresh as the operand (string <-> []byte conversions copy)
				if len(x.Args) == 1 {
					if t := info.TypeOf(x.Args[0]); t != nil {
						if b, ok := types.Unalias(t).Underlying().(*types.Basic); ok && b.Info()&types.IsString != 0 {
							return true
						}
					}
					return isFresh(x.Args[0])
				}
				return true
			}
			if id, ok := ast.Unparen(x.Fun).(*ast.Ident); ok {
				if _, isB := info.ObjectOf(id).(*types.Builtin); isB {
					switch id.Name {
					case "make", "new":
						return true
					case "append":
						return len(x.Args) > 0 && isFresh(x.Args[0])
					default:
						return true
					}
				}
			}
			t := info.TypeOf(x)
			if !isRefType(t) {
				return true
			}
			callee := calleeFunc(info, x)
			if callee == nil {
				return false
			}
			k := funcObjKey(callee)
			if o := callee.Origin(); o != nil {
				k = funcObjKey(o)
			}
			switch k {
			case "slices.Clone", "maps.Clone", "slices.Collect", "bytes.Clone", "strings.Clone", "fmt.Errorf", "errors.New", "fmt.Sprintf", "errors.Join",
				"slices.Concat", "bytes.Join", "strings.Split", "strings.Fields", "maps.Keys", "maps.Values", "bytes.Buffer.Bytes", "strconv.Quote":
				return true
			}
			if fcx.w.funcs[k] != nil {
				cs := fcx.summary(k)
				if cs.inProgress {
					return false
				}
				return cs.freshRes
			}
			return false
		case *ast.SelectorExpr, *ast.IndexExpr, *ast.StarExpr, *ast.SliceExpr, *ast.TypeAssertExpr:
			if !isRefType(info.TypeOf(e)) {
				return true
			}
			// field of a local struct value (no dereference on the path): fresh
			// iff the struct was built here and this field only ever received
			// fresh values
			if se, ok := x.(*ast.SelectorExpr); ok {
				if o, d := rootOf(se); o != nil && !d {
					if _, isParam := paramIdx[o]; !isParam {
						if v, ok := o.(*types.Var); ok && v.Pkg() != nil && v.Parent() != v.Pkg().Scope() {
							return !nonFresh[o] && !nonFreshPath[exprText(se)]
						}
					}
				}
			}
			// a component of a fresh composite value may still point to shared memory
			if o, _ := rootOf(e); o != nil {
				if _, isParam := paramIdx[o]; isParam {
					return false
				}
			}
			return false
		case *ast.BinaryExpr:
			return true
		}
		return !isRefType(info.TypeOf(e))
	}
	// iterate to a fixpoint: a local becomes non-fresh if any assigned value is not fresh
	for changed := true; changed; {
		changed = false
		ast.Inspect(fi.Decl.Body, func(n ast.Node) bool {
			mark := func(lhs ast.Expr, rhs ast.Expr) {
				if se, ok := ast.Unparen(lhs).(*ast.SelectorExpr); ok {
					// x.f = rhs on a local struct value
					if o, d := rootOf(se); o != nil && !d && isRefType(info.TypeOf(se)) {
						key := exprText(se)
						if !nonFreshPath[key] && (rhs == nil || !isFresh(rhs)) {
							nonFreshPath[key] = true
							changed = true
						}
					}
					return
				}
				id, ok := ast.Unparen(lhs).(*ast.Ident)
				if !ok || id.Name == "_" {
					return
				}
				// composite literal with non-fresh field values: x := T{f: shared}
				if cl, ok := ast.Unparen(rhs).(*ast.CompositeLit); ok && rhs != nil {
					if _, isStruct := types.Unalias(info.TypeOf(cl)).Underlying().(*types.Struct); isStruct {
						for _, el := range cl.Elts {
							if kv, ok := el.(*ast.KeyValueExpr); ok {
								if fid, ok := kv.Key.(*ast.Ident); ok && isRefType(info.TypeOf(kv.Value)) && !isFresh(kv.Value) {
									key := id.Name + "." + fid.Name
									if !nonFreshPath[key] {
										nonFreshPath[key] = true
										changed = true
									}
								}
							} else if isRefType(info.TypeOf(el)) && !isFresh(el) {
								if o := info.ObjectOf(id); o != nil && !nonFresh[o] {
									nonFresh[o] = true
									changed = true
								}
							}
						}
					}
				}
				o := info.ObjectOf(id)
				if o == nil || nonFresh[o] {
					return
				}
				v, ok := o.(*types.Var)
				if !ok || !isRefType(v.Type()) {
					return
				}
				if rhs == nil || !isFresh(rhs) {
					nonFresh[o] = true
					changed = true
					if rhs != nil {
						if ro, _ := rootOf(rhs); ro != nil {
							if pi, isP := paramIdx[ro]; isP {
								origin[o] = pi
							} else if po, ok := origin[ro]; ok {
								origin[o] = po
							}
						}
					}
				}
			}
			switch x := n.(type) {
			case *ast.AssignStmt:
				if len(x.Lhs) == len(x.Rhs) {
					for i := range x.Lhs {
						mark(x.Lhs[i], x.Rhs[i])
					}
				} else if len(x.Rhs) == 1 {
					for i := range x.Lhs {
						if i == 0 {
							// v, ok := m[k] / x.(T) / f()
							switch r := ast.Unparen(x.Rhs[0]).(type) {
							case *ast.CallExpr:
								callee := calleeFunc(info, r)
								fresh := false
								if callee != nil {
									k := funcObjKey(callee)
									if fcx.w.funcs[k] != nil {
										cs := fcx.summary(k)
										fresh = !cs.inProgress && cs.freshRes
									}
								}
								if fresh {
									continue
								}
								mark(x.Lhs[i], nil)
							default:
								mark(x.Lhs[i], x.Rhs[0])
							}
						} else {
							mark(x.Lhs[i], nil)
						}
					}
				}
			case *ast.ValueSpec:
				for i, nm := range x.Names {
					if i < len(x.Values) {
						mark(nm, x.Values[i])
					}
				}
			case *ast.RangeStmt:
				// range variables hold elements of the collection: as fresh as the collection's elements (unknown)
				if x.Key != nil {
					mark(x.Key, nil)
				}
				if x.Value != nil {
					if isFresh(x.X) {
						// elements of a fresh collection may still be shared pointers
					}
					if id, ok := x.Value.(*ast.Ident); ok && id.Name != "_" {
						o := info.ObjectOf(id)
						if o != nil && !nonFresh[o] {
							if v, ok := o.(*types.Var); ok && isRefType(v.Type()) {
								nonFresh[o] = true
								changed = true
								if ro, _ := rootOf(x.X); ro != nil {
									if pi, isP := paramIdx[ro]; isP {
										origin[o] = pi
									} else if po, ok := origin[ro]; ok {
										origin[o] = po
									}
								}
							}
						}
					}
				}
			case *ast.TypeSwitchStmt:
				// the bound variable aliases the subject
				for _, cc := range x.Body.List {
					if o := info.Implicits[cc]; o != nil && !nonFresh[o] {
						nonFresh[o] = true
						changed = true
					}
				}
			}
			return true
		})
	}
	pos := func(p token.Pos) string {
		pp := fcx.w.fset.Position(p)
		return fmt.Sprintf("%s:%d", shortFile(pp.Filename), pp.Line)
	}
	sharedRoot := func(e ast.Expr) (bool, int, string) {
		o, deref := rootOf(e)
		if !deref {
			// plain local variable or field of a local struct value
			if o != nil {
				if v, ok := o.(*types.Var); ok && v.Pkg() != nil && v.Parent() == v.Pkg().Scope() {
					return true, -2, "package-level variable " + o.Name()
				}
			}
			return false, -2, ""
		}
		if o == nil {
			return true, -2, "memory reached through an expression result"
		}
		if pi, isP := paramIdx[o]; isP {
			return true, pi, "memory reachable from parameter " + o.Name()
		}
		if v, ok := o.(*types.Var); ok && v.Pkg() != nil && v.Parent() == v.Pkg().Scope() {
			return true, -2, "package-level variable " + o.Name()
		}
		if nonFresh[o] {
			pi, ok := origin[o]
			if !ok {
				pi = -2
			}
			return true, pi, "memory held by non-fresh local " + o.Name()
		}
		return false, -2, ""
	}
	write := func(e ast.Expr, what string) {
		if sh, pi, why := sharedRoot(e); sh {
			s.writes = append(s.writes, fmt.Sprintf("%s: %s writes %s", pos(e.Pos()), what, why))
			if pi != -2 {
				s.modParams[pi] = true
			}
		}
	}
	ast.Inspect(fi.Decl.Body, func(n ast.Node) bool {
		switch x := n.(type) {
		case *ast.AssignStmt:
			if x.Tok == token.DEFINE {
				break
			}
			for _, l := range x.Lhs {
				if id, ok := ast.Unparen(l).(*ast.Ident); ok {
					// assignment to a variable itself: only package-level variables are shared
					if o := info.ObjectOf(id); o != nil {
						if v, ok := o.(*types.Var); ok && v.Pkg() != nil && v.Parent() == v.Pkg().Scope() {
							s.writes = append(s.writes, fmt.Sprintf("%s: assignment to package-level variable %s", pos(l.Pos()), id.Name))
						}
					}
					continue
				}
				write(l, "assignment `"+exprText(l)+" = …`")
			}
		case *ast.IncDecStmt:
			if _, ok := ast.Unparen(x.X).(*ast.Ident); !ok {
				write(x.X, "`"+exprText(x.X)+x.Tok.String()+"`")
			}
		case *ast.CallExpr:
			if id, ok := ast.Unparen(x.Fun).(*ast.Ident); ok {
				if _, isB := info.ObjectOf(id).(*types.Builtin); isB {
					switch id.Name {
					case "delete", "clear", "copy":
						if len(x.Args) > 0 {
							// the argument itself denotes the written object
							if sh, pi, why := sharedOperand(x.Args[0], rootOf, paramIdx, nonFresh, origin, info); sh {
								s.writes = append(s.writes, fmt.Sprintf("%s: %s(%s, …) writes %s", pos(x.Pos()), id.Name, exprText(x.Args[0]), why))
								if pi != -2 {
									s.modParams[pi] = true
								}
							}
						}
					case "append":
						if len(x.Args) > 1 && !isFresh(x.Args[0]) {
							if sh, pi, why := sharedOperand(x.Args[0], rootOf, paramIdx, nonFresh, origin, info); sh {
								s.writes = append(s.writes, fmt.Sprintf("%s: append(%s, …) may write into the backing array of %s", pos(x.Pos()), exprText(x.Args[0]), why))
								if pi != -2 {
									s.modParams[pi] = true
								}
							}
						}
					}
					break
				}
			}
			if tv, ok := info.Types[x.Fun]; ok && tv.IsType() {
				break
			}
			callee := calleeFunc(info, x)
			fc := frameCall{pos: pos(x.Pos()), args: map[int]frameArg{}}
			describe := func(i int, a ast.Expr) {
				if !isRefType(info.TypeOf(a)) {
					return
				}
				e := a
				if u, ok := ast.Unparen(a).(*ast.UnaryExpr); ok && u.Op == token.AND {
					// &x: the callee can write x
					if o, d := rootOf(u.X); o != nil && !d {
						if _, isP := paramIdx[o]; !isP {
							if v, ok := o.(*types.Var); ok && v.Pkg() != nil && v.Parent() != v.Pkg().Scope() {
								return // address of a local
							}
						}
					}
					e = u.X
				}
				if isFresh(e) {
					return
				}
				sh, pi, why := sharedOperand(e, rootOf, paramIdx, nonFresh, origin, info)
				if sh {
					fc.args[i] = frameArg{shared: true, fromParam: pi, text: exprText(a) + " (" + why + ")"}
				}
			}
			if se, ok := ast.Unparen(x.Fun).(*ast.SelectorExpr); ok {
				if sel, ok := info.Selections[se]; ok && sel.Kind() == types.MethodVal {
					// receiver: a value receiver of a non-reference struct is copied
					describe(-1, se.X)
					if _, isPtrRecv := sel.Obj().Type().(*types.Signature).Recv().Type().(*types.Pointer); isPtrRecv {
						// implicit address-of on an addressable operand
						if o, d := rootOf(se.X); o != nil && !d {
							if _, isP := paramIdx[o]; !isP {
								if v, ok := o.(*types.Var); ok && v.Pkg() != nil && v.Parent() != v.Pkg().Scope() && !isPointer(info.TypeOf(se.X)) {
									delete(fc.args, -1) // method on a local value
								}
							}
						}
					}
				}
			}
			for i, a := range x.Args {
				describe(i, a)
			}
			if callee != nil {
				k := funcObjKey(callee)
				if o := callee.Origin(); o != nil {
					k = funcObjKey(o)
				}
				fc.callee = k
			} else {
				fc.callee = "?" + exprText(x.Fun)
			}
			if len(fc.args) > 0 {
				s.calls = append(s.calls, fc)
			}
		case *ast.ReturnStmt:
			for _, r := range x.Results {
				if isRefType(info.TypeOf(r)) && !isFresh(r) {
					s.freshRes = false
					if o, _ := rootOf(r); o != nil {
						if _, isP := paramIdx[o]; isP {
							s.leaks = append(s.leaks, fmt.Sprintf("%s: returns %s, which is reachable from parameter %s", pos(r.Pos()), exprText(r), o.Name()))
						}
					}
				}
			}
		}
		return true
	})
	// named results assigned non-fresh values
	if fi.Decl.Type.Results != nil {
		for _, fld := range fi.Decl.Type.Results.List {
			for _, n := range fld.Names {
				if o := info.Defs[n]; o != nil && nonFresh[o] {
					s.freshRes = false
				}
			}
		}
	}
}

func isPointer(t types.Type) bool {
	if t == nil {
		return false
	}
	_, ok := types.Unalias(t).Underlying().(*types.Pointer)
	return ok
}

func sharedOperand(e ast.Expr, rootOf func(ast.Expr) (types.Object, bool), paramIdx map[types.Object]int, nonFresh map[types.Object]bool, origin map[types.Object]int, info *types.Info) (bool, int, string) {
	o, _ := rootOf(e)
	if o == nil {
		return true, -2, "an expression result"
	}
	if pi, isP := paramIdx[o]; isP {
		return true, pi, "parameter " + o.Name()
	}
	if v, ok := o.(*types.Var); ok && v.Pkg() != nil && v.Parent() == v.Pkg().Scope() {
		return true, -2, "package-level variable " + o.Name()
	}
	if nonFresh[o] {
		pi, ok := origin[o]
		if !ok {
			pi = -2
		}
		return true, pi, "non-fresh local " + o.Name()
	}
	// a fresh local whose sub-component is passed
	if _, isIdent := ast.Unparen(e).(*ast.Ident); !isIdent {
		return true, -2, "a component of " + o.Name()
	}
	return false, -2, ""
}

func calleeFunc(info *types.Info, call *ast.CallExpr) *types.Func {
	fun := ast.Unparen(call.Fun)
	for {
		switch f := fun.(type) {
		case *ast.IndexExpr:
			fun = f.X
			continue
		case *ast.IndexListExpr:
			fun = f.X
			continue
		}
		break
	}
	switch f := fun.(type) {
	case *ast.Ident:
		if fn, ok := info.ObjectOf(f).(*types.Func); ok {
			return fn
		}
	case *ast.SelectorExpr:
		if sel, ok := info.Selections[f]; ok {
			if fn, ok := sel.Obj().(*types.Func); ok {
				return fn
			}
			return nil
		}
		if fn, ok := info.ObjectOf(f.Sel).(*types.Func); ok {
			return fn
		}
	}
	return nil
}

func exprText(e ast.Node) string {
	var sb strings.Builder
	writeExpr(&sb, e)
	return sb.String()
}

// violations of frame-cleanliness of function key, transitively.
func (fcx *frameChecker) sharedWrites(key string, seen map[string]bool, depth int) []string {
	if seen[key] || depth > 40 {
		return nil
	}
	seen[key] = true
	s := fcx.summary(key)
	var out []string
	out = append(out, s.writes...)
	for _, c := range s.calls {
		mods := fcx.calleeMods(c.callee, map[string]bool{}, 0)
		for i, a := range c.args {
			if !a.shared {
				continue
			}
			if mods == nil {
				// unknown callee: pointer arguments may be written
				continue
			}
			if mods[i] {
				out = append(out, fmt.Sprintf("%s: call of %s writes through argument %s", c.pos, strings.TrimPrefix(c.callee, modPath+"/"), a.text))
			}
		}
	}
	return out
}

// shallowRecvWrites: like sharedWrites, but assignments to the receiver's own
// pointee are allowed (own ones and those of callees handed the receiver itself).
func (fcx *frameChecker) shallowRecvWrites(key string) []string {
	s := fcx.summary(key)
	var out []string
	for _, w := range s.writes {
		if !s.shallowMsg[w] {
			out = append(out, w)
		}
	}
	for _, c := range s.calls {
		mods := fcx.calleeMods(c.callee, map[string]bool{}, 0)
		if mods == nil {
			continue
		}
		deep := fcx.calleeDeepMods(c.callee, map[string]bool{}, 0)
		for i, a := range c.args {
			if !a.shared {
				continue
			}
			if deep[i] || (mods[i] && !(a.exact && a.fromParam == -1)) {
				out = append(out, fmt.Sprintf("%s: call of %s writes through argument %s", c.pos, strings.TrimPrefix(c.callee, modPath+"/"), a.text))
			}
		}
	}
	return out
}

// calleeMods: parameter indexes the callee (transitively) writes through.
func (fcx *frameChecker) calleeMods(key string, seen map[string]bool, depth int) map[int]bool {
	if m, ok := stdlibMods[key]; ok {
		r := map[int]bool{}
		for _, i := range m {
			r[i] = true
		}
		return r
	}
	fi := fcx.w.funcs[key]
	if fi == nil {
		// method of a repository interface: any implementer may be the callee
		// (closed world)
		if impls := fcx.implMethods(key); len(impls) > 0 {
			if seen[key] || depth > 40 {
				return map[int]bool{}
			}
			seen[key] = true
			r := map[int]bool{}
			for _, ik := range impls {
				for i := range fcx.calleeMods(ik, seen, depth+1) {
					r[i] = true
				}
			}
			return r
		}
		// callees outside the repository: pure by package / by name, else
		// conservatively assumed to write through every reference argument
		if pureForeign(key) {
			return map[int]bool{}
		}
		r := map[int]bool{}
		for i := -1; i < 8; i++ {
			r[i] = true
		}
		return r
	}
	if seen[key] || depth > 40 {
		return map[int]bool{}
	}
	seen[key] = true
	s := fcx.summary(key)
	r := map[int]bool{}
	for i := range s.modParams {
		r[i] = true
	}
	for _, c := range s.calls {
		cm := fcx.calleeMods(c.callee, seen, depth+1)
		for i, a := range c.args {
			if a.shared && cm[i] && a.fromParam != -2 {
				r[a.fromParam] = true
			}
		}
	}
	return r
}

// calleeDeepMods: parameter indexes through which the callee (transitively) writes memory other
// than the parameter's own pointee.
func (fcx *frameChecker) calleeDeepMods(key string, seen map[string]bool, depth int) map[int]bool {
	if m, ok := stdlibMods[key]; ok {
		r := map[int]bool{}
		for _, i := range m {
			r[i] = true
		}
		return r
	}
	fi := fcx.w.funcs[key]
	if fi == nil {
		// method of a repository interface: any implementer may be the callee
		// (closed world)
		if impls := fcx.implMethods(key); len(impls) > 0 {
			if seen[key] || depth > 40 {
				return map[int]bool{}
			}
			seen[key] = true
			r := map[int]bool{}
			for _, ik := range impls {
				for i := range fcx.calleeDeepMods(ik, seen, depth+1) {
					r[i] = true
				}
			}
			return r
		}
		// callees outside the repository: pure by package / by name, else
		// conservatively assumed to write through every reference argument
		if pureForeign(key) {
			return map[int]bool{}
		}
		r := map[int]bool{}
		for i := -1; i < 8; i++ {
			r[i] = true
		}
		return r
	}
	if seen[key] || depth > 40 {
		return map[int]bool{}
	}
	seen[key] = true
	s := fcx.summary(key)
	r := map[int]bool{}
	for i := range s.deepParams {
		r[i] = true
	}
	for _, c := range s.calls {
		cd := fcx.calleeDeepMods(c.callee, seen, depth+1)
		cm := fcx.calleeMods(c.callee, map[string]bool{}, 0)
		for i, a := range c.args {
			if a.shared && a.fromParam != -2 && (cd[i] || (cm[i] && !a.exact)) {
				r[a.fromParam] = true
			}
		}
	}
	return r
}

// implMethods: for the key "pkg.Iface.Method" of a repository interface, the
// keys of the concrete methods that implement it.
func (fcx *frameChecker) implMethods(key string) []string {
	if fcx.implCache == nil {
		fcx.implCache = map[string][]string{}
	}
	if r, ok := fcx.implCache[key]; ok {
		return r
	}
	var out []string
	i := strings.LastIndex(key, ".")
	if i > 0 {
		if t := fcx.w.lookupType(key[:i]); t != nil {
			if iface, ok := t.Underlying().(*types.Interface); ok && fcx.w.inRepo(t.(*types.Named).Obj().Pkg()) {
				name := key[i+1:]
				for _, T := range fcx.w.implementers(iface, typeKey(t), t) {
					n, ok := derefNamed(T)
					if !ok {
						continue
					}
					obj, _, _ := types.LookupFieldOrMethod(T, true, n.Obj().Pkg(), name)
					if m, ok := obj.(*types.Func); ok {
						out = append(out, funcObjKey(m))
					}
				}
			}
		}
	}
	fcx.implCache[key] = out
	return out
}

// frameObligations: one obligation per entry point.
type frameResult struct {
	Func     string
	OK       bool
	Problems []string
	Reached  int
}

func (w *World) checkFrames(prop string) []frameResult {
	fcx := &frameChecker{w: w, sums: map[string]*frameSummary{}}
	var out []frameResult
	for _, fd := range w.cs.FrameDecls {
		if fd.Prop != prop {
			continue
		}
		for _, fn := range fd.Funcs {
			key := fd.Pkg + "." + fn
			if w.funcs[key] == nil {
				out = append(out, frameResult{Func: key, OK: false, Problems: []string{"function not found in the current tree"}})
				continue
			}
			// transitive closure over callees
			var problems []string
			visited := map[string]bool{}
			var visit func(k string, d int)
			// (a) the entry point's own writes to caller-visible memory, and calls
			// that pass caller-visible memory to a callee that (transitively)
			// writes through that parameter
			own := fcx.sharedWrites(key, map[string]bool{}, 0)
			if fd.Shallow {
				own = fcx.shallowRecvWrites(key)
			}
			for _, p := range own {
				problems = append(problems, strings.TrimPrefix(key, modPath+"/")+": "+p)
			}
			// (b) writes to package-level variables anywhere in the call graph
			visit = func(k string, d int) {
				if visited[k] || d > 60 {
					return
				}
				visited[k] = true
				if k != key {
					for _, wr := range fcx.summary(k).writes {
						if strings.Contains(wr, "package-level") {
							problems = append(problems, strings.TrimPrefix(k, modPath+"/")+": "+wr)
						}
					}
				}
				if fi := w.funcs[k]; fi != nil && fi.Decl.Body != nil {
					ast.Inspect(fi.Decl.Body, func(n ast.Node) bool {
						if call, ok := n.(*ast.CallExpr); ok {
							if cal := calleeFunc(fi.Pkg.TypesInfo, call); cal != nil {
								ck := funcObjKey(cal)
								if o := cal.Origin(); o != nil {
									ck = funcObjKey(o)
								}
								if w.funcs[ck] != nil {
									visit(ck, d+1)
								} else {
									for _, ik := range fcx.implMethods(ck) {
										visit(ik, d+1)
									}
								}
							}
						}
						return true
					})
				}
			}
			visit(key, 0)
			if fd.NoLeak {
				s := fcx.summary(key)
				problems = append(problems, s.leaks...)
				if !s.freshRes && len(s.leaks) == 0 {
					problems = append(problems, "a reference-typed result is not provably fresh")
				}
			}
			sort.Strings(problems)
			problems = dedup(problems)
			out = append(out, frameResult{Func: key, OK: len(problems) == 0, Problems: problems, Reached: len(visited)})
		}
	}
	return out
}

func dedup(xs []string) []string {
	var out []string
	for i, x := range xs {
		if i == 0 || x != xs[i-1] {
			out = append(out, x)
		}
	}
	return out
}
