package main

// Flow-sensitive freshness analysis for the frame checker (a must-analysis
// over the structured AST): at every program point a set F of local
// variables known to hold only memory allocated in this function (or nil),
// and a set D of "dirty" field paths x.f of local struct values that may
// alias caller-visible memory. Joins intersect F and unite D; loops are
// iterated to a fixpoint.

import (
	"fmt"
	"go/ast"
	"go/token"
	"go/types"
	"strings"
)

type fstate struct {
	fresh map[types.Object]bool
	dirty map[string]bool
	// for non-fresh locals: the parameter index they derive from (-2 unknown)
	origin map[types.Object]int
}

func (s *fstate) clone() *fstate {
	n := &fstate{fresh: map[types.Object]bool{}, dirty: map[string]bool{}, origin: map[types.Object]int{}}
	for k, v := range s.fresh {
		n.fresh[k] = v
	}
	for k, v := range s.dirty {
		n.dirty[k] = v
	}
	for k, v := range s.origin {
		n.origin[k] = v
	}
	return n
}

func joinStates(a, b *fstate) *fstate {
	if a == nil {
		return b
	}
	if b == nil {
		return a
	}
	n := &fstate{fresh: map[types.Object]bool{}, dirty: map[string]bool{}, origin: map[types.Object]int{}}
	for k := range a.fresh {
		if b.fresh[k] {
			n.fresh[k] = true
		}
	}
	for k := range a.dirty {
		n.dirty[k] = true
	}
	for k := range b.dirty {
		n.dirty[k] = true
	}
	for k, v := range a.origin {
		n.origin[k] = v
	}
	for k, v := range b.origin {
		if _, ok := n.origin[k]; !ok {
			n.origin[k] = v
		}
	}
	return n
}

func sameState(a, b *fstate) bool {
	if len(a.fresh) != len(b.fresh) || len(a.dirty) != len(b.dirty) {
		return false
	}
	for k := range a.fresh {
		if !b.fresh[k] {
			return false
		}
	}
	for k := range a.dirty {
		if !b.dirty[k] {
			return false
		}
	}
	return true
}

type flowAnalyzer struct {
	fcx      *frameChecker
	fi       *FuncInfo
	info     *types.Info
	s        *frameSummary
	paramIdx map[types.Object]int
	results  []types.Object
	seenMsg  map[string]bool
	// loop/switch exits
	breaks []*fstate
}

func (fcx *frameChecker) analyzeFlow(fi *FuncInfo, s *frameSummary) {
	fa := &flowAnalyzer{fcx: fcx, fi: fi, info: fi.Pkg.TypesInfo, s: s, paramIdx: map[types.Object]int{}, seenMsg: map[string]bool{}}
	info := fa.info
	if fi.Decl.Recv != nil && len(fi.Decl.Recv.List) > 0 && len(fi.Decl.Recv.List[0].Names) > 0 {
		if o := info.Defs[fi.Decl.Recv.List[0].Names[0]]; o != nil {
			fa.paramIdx[o] = -1
		}
	}
	idx := 0
	if fi.Decl.Type.Params != nil {
		for _, fld := range fi.Decl.Type.Params.List {
			if len(fld.Names) == 0 {
				idx++
				continue
			}
			for _, n := range fld.Names {
				if o := info.Defs[n]; o != nil {
					fa.paramIdx[o] = idx
				}
				idx++
			}
		}
	}
	st := &fstate{fresh: map[types.Object]bool{}, dirty: map[string]bool{}, origin: map[types.Object]int{}}
	if fi.Decl.Type.Results != nil {
		for _, fld := range fi.Decl.Type.Results.List {
			for _, n := range fld.Names {
				if o := info.Defs[n]; o != nil {
					st.fresh[o] = true // zero value
					fa.results = append(fa.results, o)
				}
			}
		}
	}
	fa.block(fi.Decl.Body.List, st)
}

func (fa *flowAnalyzer) pos(p token.Pos) string {
	pp := fa.fcx.w.fset.Position(p)
	return fmt.Sprintf("%s:%d", shortFile(pp.Filename), pp.Line)
}

// isTracked: locals, and parameter *variables* (a parameter starts out
// referencing the caller's memory but may be rebound: `m = maps.Clone(m)`).
func (fa *flowAnalyzer) isTracked(o types.Object) bool {
	if fa.isLocal(o) {
		return true
	}
	_, isParam := fa.paramIdx[o]
	return isParam
}

func (fa *flowAnalyzer) isLocal(o types.Object) bool {
	v, ok := o.(*types.Var)
	if !ok || v.Pkg() == nil {
		return false
	}
	if v.Parent() == v.Pkg().Scope() {
		return false
	}
	if _, isParam := fa.paramIdx[o]; isParam {
		return false
	}
	return !v.IsField()
}

// root: the root variable of an lvalue/operand expression, whether the path
// dereferences (pointer, slice element, map element), and the textual path of
// field selections on a local struct value before any dereference ("x.f").
func (fa *flowAnalyzer) root(e ast.Expr) (obj types.Object, deref bool, path string) {
	switch x := ast.Unparen(e).(type) {
	case *ast.Ident:
		return fa.info.ObjectOf(x), false, x.Name
	case *ast.SelectorExpr:
		if sel, ok := fa.info.Selections[x]; ok && sel.Kind() == types.FieldVal {
			o, d, p := fa.root(x.X)
			if isPointer(fa.info.TypeOf(x.X)) || sel.Indirect() {
				d = true
			}
			if !d {
				p = p + "." + x.Sel.Name
			}
			return o, d, p
		}
		return fa.info.ObjectOf(x.Sel), false, exprText(x)
	case *ast.IndexExpr:
		o, d, p := fa.root(x.X)
		if t := fa.info.TypeOf(x.X); t != nil {
			switch types.Unalias(t).Underlying().(type) {
			case *types.Slice, *types.Map, *types.Pointer:
				d = true
			}
		}
		return o, d, p
	case *ast.StarExpr:
		o, _, p := fa.root(x.X)
		return o, true, p
	case *ast.SliceExpr:
		return fa.root(x.X)
	case *ast.TypeAssertExpr:
		return fa.root(x.X)
	case *ast.CallExpr:
		return nil, true, ""
	}
	return nil, false, ""
}

// holderFresh: is the memory *referenced by* the value of expression e (a
// variable or a field path of a local struct value) allocated here?
func (fa *flowAnalyzer) holderFresh(o types.Object, path string, st *fstate) bool {
	if o == nil || !fa.isTracked(o) {
		return false
	}
	if !st.fresh[o] {
		return false
	}
	// a struct value with a dirty component references shared memory
	for k := range st.dirty {
		if strings.HasPrefix(k, path+".") {
			return false
		}
	}
	// any dirty prefix of the path
	for p := path; p != ""; {
		if st.dirty[p] {
			return false
		}
		i := strings.LastIndex(p, ".")
		if i < 0 {
			break
		}
		p = p[:i]
	}
	return true
}

func (fa *flowAnalyzer) isFresh(e ast.Expr, st *fstate) bool {
	info := fa.info
	if e == nil {
		return true
	}
	if !isRefType(info.TypeOf(e)) {
		return true
	}
	switch x := ast.Unparen(e).(type) {
	case *ast.CompositeLit:
		// fresh container; the values stored in it are examined at assignment
		for _, el := range x.Elts {
			v := el
			if kv, ok := el.(*ast.KeyValueExpr); ok {
				v = kv.Value
			}
			if _, isStruct := types.Unalias(info.TypeOf(x)).Underlying().(*types.Struct); !isStruct {
				// slice/map literal of reference values: elements may be shared, the container is fresh
				continue
			}
			// a struct value carries the references stored in its fields: it is
			// fresh only if they are
			if isRefType(info.TypeOf(v)) && !fa.isFresh(v, st) {
				return false
			}
		}
		return true
	case *ast.BasicLit, *ast.FuncLit:
		return true
	case *ast.UnaryExpr:
		if x.Op == token.AND {
			if _, ok := ast.Unparen(x.X).(*ast.CompositeLit); ok {
				return true
			}
			o, d, p := fa.root(x.X)
			if o != nil && !d && fa.isLocal(o) {
				// pointer to a local: as fresh as what the local references
				return fa.holderFresh(o, p, st) || !isRefType(fa.info.TypeOf(x.X))
			}
			return false
		}
		return true
	case *ast.Ident:
		if x.Name == "nil" {
			return true
		}
		o := info.ObjectOf(x)
		switch o.(type) {
		case *types.Const, *types.Nil, *types.Func:
			return true
		}
		return fa.holderFresh(o, x.Name, st)
	case *ast.SelectorExpr:
		if _, ok := info.Selections[x]; !ok {
			// qualified identifier
			o := info.ObjectOf(x.Sel)
			switch o.(type) {
			case *types.Const, *types.Func:
				return true
			}
			return false
		}
		o, d, p := fa.root(x)
		if d {
			return false
		}
		return fa.holderFresh(o, p, st)
	case *ast.CallExpr:
		if tv, ok := info.Types[x.Fun]; ok && tv.IsType() {
			if len(x.Args) == 1 {
				if t := info.TypeOf(x.Args[0]); t != nil {
					if b, ok := types.Unalias(t).Underlying().(*types.Basic); ok && b.Info()&types.IsString != 0 {
						return true // []byte(s) copies
					}
				}
				return fa.isFresh(x.Args[0], st)
			}
			return true
		}
		if id, ok := ast.Unparen(x.Fun).(*ast.Ident); ok {
			if _, isB := info.ObjectOf(id).(*types.Builtin); isB {
				switch id.Name {
				case "make", "new":
					return true
				case "append":
					return len(x.Args) > 0 && fa.isFresh(x.Args[0], st)
				}
				return true
			}
		}
		callee := calleeFunc(info, x)
		if callee == nil {
			return false
		}
		k := funcObjKey(callee)
		if o := callee.Origin(); o != nil {
			k = funcObjKey(o)
		}
		switch k {
		case "slices.Clone", "maps.Clone", "slices.Collect", "bytes.Clone", "strings.Clone", "fmt.Errorf", "errors.New", "fmt.Sprintf", "errors.Join",
			"slices.Concat", "bytes.Join", "strings.Split", "strings.Fields", "maps.Keys", "maps.Values", "maps.All", "bytes.Buffer.Bytes", "strconv.Quote",
			"hash/fnv.New64", "hash/fnv.New64a", "encoding/json.Marshal", "strconv.AppendInt", "strconv.AppendQuote":
			return true
		}
		if fa.fcx.w.funcs[k] != nil {
			cs := fa.fcx.summary(k)
			if cs.inProgress {
				return false
			}
			return cs.freshRes
		}
		return false
	case *ast.BinaryExpr:
		return true
	}
	return false
}

// describeShared: is the object written/passed caller-visible, and through which parameter.
func (fa *flowAnalyzer) shared(e ast.Expr, st *fstate, needDeref bool) (bool, int, string) {
	o, deref, p := fa.root(e)
	if needDeref && !deref {
		// writing a local variable or a field of a local struct value
		if o != nil {
			if v, ok := o.(*types.Var); ok && v.Pkg() != nil && v.Parent() == v.Pkg().Scope() {
				return true, -2, "package-level variable " + o.Name()
			}
		}
		return false, -2, ""
	}
	if o == nil {
		return true, -2, "memory reached through an expression result"
	}
	if pi, isP := fa.paramIdx[o]; isP && !fa.holderFresh(o, p, st) {
		return true, pi, "memory reachable from parameter " + o.Name()
	}
	if v, ok := o.(*types.Var); ok && v.Pkg() != nil && v.Parent() == v.Pkg().Scope() {
		return true, -2, "package-level variable " + o.Name()
	}
	if fa.holderFresh(o, p, st) {
		return false, -2, ""
	}
	pi, ok := st.origin[o]
	if !ok {
		pi = -2
	}
	return true, pi, "memory held by " + p + ", which may alias memory not allocated here"
}

func (fa *flowAnalyzer) noteWrite(p token.Pos, msg string, pi int) {
	fa.noteWriteX(p, msg, pi, false)
}

// noteWriteX: shallow = the write assigns to a pointer parameter's own pointee.
func (fa *flowAnalyzer) noteWriteX(p token.Pos, msg string, pi int, shallow bool) {
	m := fmt.Sprintf("%s: %s", fa.pos(p), msg)
	if !fa.seenMsg[m] {
		fa.seenMsg[m] = true
		fa.s.writes = append(fa.s.writes, m)
	}
	if shallow && pi != -2 {
		fa.s.shallowMsg[m] = true
	}
	if pi != -2 {
		fa.s.modParams[pi] = true
		if !shallow {
			fa.s.deepParams[pi] = true
		}
	}
}

// exactParam: e is one of the function's pointer parameters itself, possibly
// parenthesised or converted to another pointer type.
func (fa *flowAnalyzer) exactParam(e ast.Expr) (types.Object, bool) {
	for {
		e = ast.Unparen(e)
		if c, ok := e.(*ast.CallExpr); ok && len(c.Args) == 1 {
			if tv, ok := fa.info.Types[c.Fun]; ok && tv.IsType() {
				e = c.Args[0]
				continue
			}
		}
		break
	}
	id, ok := e.(*ast.Ident)
	if !ok {
		return nil, false
	}
	o := fa.info.ObjectOf(id)
	if o == nil {
		return nil, false
	}
	if _, isP := fa.paramIdx[o]; !isP || !isPointer(o.Type()) {
		return nil, false
	}
	return o, true
}

// shallowTarget: the assignment target is `*p` or `p.f` for a pointer parameter p
// that still holds the caller's pointer.
func (fa *flowAnalyzer) shallowTarget(l ast.Expr, st *fstate) bool {
	switch x := ast.Unparen(l).(type) {
	case *ast.StarExpr:
		o, ok := fa.exactParam(x.X)
		return ok && !st.fresh[o]
	case *ast.SelectorExpr:
		o, ok := fa.exactParam(x.X)
		if !ok || st.fresh[o] {
			return false
		}
		if sel, ok := fa.info.Selections[x]; ok && sel.Kind() == types.FieldVal && len(sel.Index()) == 1 {
			return true
		}
	}
	return false
}

// setVar records the assignment x = rhs (or x declared with rhs).
func (fa *flowAnalyzer) setVar(lhs ast.Expr, rhs ast.Expr, st *fstate, rhsFresh *bool) {
	info := fa.info
	fresh := false
	if rhsFresh != nil {
		fresh = *rhsFresh
	} else {
		fresh = fa.isFresh(rhs, st)
	}
	originOf := func() int {
		if rhs == nil {
			return -2
		}
		if ro, _, _ := fa.root(rhs); ro != nil {
			if pi, isP := fa.paramIdx[ro]; isP {
				return pi
			}
			if po, ok := st.origin[ro]; ok {
				return po
			}
		}
		return -2
	}
	switch x := ast.Unparen(lhs).(type) {
	case *ast.Ident:
		if x.Name == "_" {
			return
		}
		o := info.ObjectOf(x)
		if o == nil || !fa.isTracked(o) {
			return
		}
		if !isRefType(o.Type()) {
			st.fresh[o] = true
			return
		}
		// clear dirty paths below x
		for k := range st.dirty {
			if k == x.Name || strings.HasPrefix(k, x.Name+".") {
				delete(st.dirty, k)
			}
		}
		if fresh {
			st.fresh[o] = true
			delete(st.origin, o)
			fa.dirtyFromLiteral(x.Name, rhs, st)
		} else {
			// a struct value copied from shared memory owns its own fields, but
			// its reference-typed fields alias the source
			if _, isStruct := types.Unalias(o.Type()).Underlying().(*types.Struct); isStruct && rhs != nil {
				st.fresh[o] = true
				fa.dirtyAllRefFields(x.Name, o.Type(), st)
				st.origin[o] = originOf()
				return
			}
			delete(st.fresh, o)
			st.origin[o] = originOf()
		}
	case *ast.SelectorExpr:
		o, d, p := fa.root(x)
		if d || o == nil || !fa.isLocal(o) {
			return // a store through shared memory, reported by the write check
		}
		if !isRefType(info.TypeOf(x)) {
			return
		}
		if fresh {
			delete(st.dirty, p)
		} else {
			st.dirty[p] = true
		}
	}
}

// dirtyFromLiteral: x := T{f: shared} makes x.f dirty.
func (fa *flowAnalyzer) dirtyFromLiteral(name string, rhs ast.Expr, st *fstate) {
	e := ast.Unparen(rhs)
	if u, ok := e.(*ast.UnaryExpr); ok && u.Op == token.AND {
		e = ast.Unparen(u.X)
	}
	cl, ok := e.(*ast.CompositeLit)
	if !ok {
		return
	}
	stt, isStruct := types.Unalias(fa.info.TypeOf(cl)).Underlying().(*types.Struct)
	if !isStruct {
		// slice / map literal: elements that are shared references make the
		// container's *elements* shared, not the container; element writes go
		// through a dereference of an element, which is not tracked: be conservative
		for _, el := range cl.Elts {
			v := el
			if kv, ok := el.(*ast.KeyValueExpr); ok {
				v = kv.Value
			}
			if isRefType(fa.info.TypeOf(v)) && !fa.isFresh(v, st) {
				st.dirty[name+".[]"] = true
			}
		}
		return
	}
	for i, el := range cl.Elts {
		if kv, ok := el.(*ast.KeyValueExpr); ok {
			if fid, ok := kv.Key.(*ast.Ident); ok && isRefType(fa.info.TypeOf(kv.Value)) && !fa.isFresh(kv.Value, st) {
				st.dirty[name+"."+fid.Name] = true
			}
		} else if i < stt.NumFields() && isRefType(fa.info.TypeOf(el)) && !fa.isFresh(el, st) {
			st.dirty[name+"."+stt.Field(i).Name()] = true
		}
	}
}

func (fa *flowAnalyzer) dirtyAllRefFields(name string, t types.Type, st *fstate) {
	stt, ok := types.Unalias(t).Underlying().(*types.Struct)
	if !ok {
		return
	}
	for i := 0; i < stt.NumFields(); i++ {
		if isRefType(stt.Field(i).Type()) {
			st.dirty[name+"."+stt.Field(i).Name()] = true
		}
	}
}

func (fa *flowAnalyzer) block(stmts []ast.Stmt, st *fstate) *fstate {
	for _, s := range stmts {
		if st == nil {
			return nil
		}
		st = fa.stmt(s, st)
	}
	return st
}

// nilTest: `x != nil` / `x == nil` on a local variable
func (fa *flowAnalyzer) nilTest(cond ast.Expr) (types.Object, bool, bool) {
	be, ok := ast.Unparen(cond).(*ast.BinaryExpr)
	if !ok || (be.Op != token.EQL && be.Op != token.NEQ) {
		return nil, false, false
	}
	var side ast.Expr
	if id, ok := ast.Unparen(be.Y).(*ast.Ident); ok && id.Name == "nil" {
		side = be.X
	} else if id, ok := ast.Unparen(be.X).(*ast.Ident); ok && id.Name == "nil" {
		side = be.Y
	}
	if side == nil {
		return nil, false, false
	}
	id, ok := ast.Unparen(side).(*ast.Ident)
	if !ok {
		return nil, false, false
	}
	return fa.info.ObjectOf(id), be.Op == token.EQL, true
}

func (fa *flowAnalyzer) stmt(s ast.Stmt, st *fstate) *fstate {
	info := fa.info
	switch x := s.(type) {
	case *ast.BlockStmt:
		return fa.block(x.List, st)
	case *ast.ExprStmt:
		fa.expr(x.X, st)
		return st
	case *ast.DeclStmt:
		if gd, ok := x.Decl.(*ast.GenDecl); ok {
			for _, sp := range gd.Specs {
				vs, ok := sp.(*ast.ValueSpec)
				if !ok {
					continue
				}
				for _, v := range vs.Values {
					fa.expr(v, st)
				}
				for i, n := range vs.Names {
					if len(vs.Values) == 0 {
						if o := info.Defs[n]; o != nil {
							st.fresh[o] = true // zero value
						}
						continue
					}
					if i < len(vs.Values) && len(vs.Values) == len(vs.Names) {
						fa.setVar(n, vs.Values[i], st, nil)
					} else {
						f := false
						fa.setVar(n, nil, st, &f)
					}
				}
			}
		}
		return st
	case *ast.AssignStmt:
		for _, r := range x.Rhs {
			fa.expr(r, st)
		}
		// stores through shared memory
		if x.Tok != token.DEFINE {
			for _, l := range x.Lhs {
				if _, ok := ast.Unparen(l).(*ast.Ident); ok {
					if o := info.ObjectOf(ast.Unparen(l).(*ast.Ident)); o != nil {
						if v, ok := o.(*types.Var); ok && v.Pkg() != nil && v.Parent() == v.Pkg().Scope() {
							fa.noteWrite(l.Pos(), "assignment to package-level variable "+o.Name(), -2)
						}
					}
					continue
				}
				fa.expr(l, st)
				if sh, pi, why := fa.shared(l, st, true); sh {
					fa.noteWriteX(l.Pos(), "assignment `"+exprText(l)+" "+x.Tok.String()+" …` writes "+why, pi, fa.shallowTarget(l, st))
				}
			}
		}
		if len(x.Lhs) == len(x.Rhs) {
			// evaluate freshness of all right sides before assigning
			fr := make([]bool, len(x.Rhs))
			for i, r := range x.Rhs {
				fr[i] = fa.isFresh(r, st)
			}
			for i, l := range x.Lhs {
				if x.Tok != token.ASSIGN && x.Tok != token.DEFINE {
					continue // op-assign: no new reference
				}
				f := fr[i]
				fa.setVar(l, x.Rhs[i], st, &f)
			}
		} else if len(x.Rhs) == 1 {
			for i, l := range x.Lhs {
				f := false
				if i == 0 {
					switch r := ast.Unparen(x.Rhs[0]).(type) {
					case *ast.CallExpr:
						f = fa.isFresh(r, st)
					case *ast.TypeAssertExpr:
						f = fa.isFresh(r.X, st)
					case *ast.IndexExpr:
						f = false
					}
					fa.setVar(l, x.Rhs[0], st, &f)
				} else {
					f = true // ok / error results carry no caller memory (errors are immutable)
					if isRefType(info.TypeOf(l)) {
						if n, ok := types.Unalias(info.TypeOf(l)).(*types.Named); !ok || n.Obj().Name() != "error" {
							f = false
						}
					}
					fa.setVar(l, nil, st, &f)
				}
			}
		}
		return st
	case *ast.IncDecStmt:
		if _, ok := ast.Unparen(x.X).(*ast.Ident); !ok {
			if sh, pi, why := fa.shared(x.X, st, true); sh {
				fa.noteWrite(x.Pos(), "`"+exprText(x.X)+x.Tok.String()+"` writes "+why, pi)
			}
		}
		return st
	case *ast.ReturnStmt:
		for _, r := range x.Results {
			fa.expr(r, st)
			if isRefType(info.TypeOf(r)) && !fa.isFresh(r, st) {
				if n, ok := types.Unalias(info.TypeOf(r)).(*types.Named); ok && n.Obj().Name() == "error" && n.Obj().Pkg() == nil {
					continue
				}
				fa.s.freshRes = false
				if o, _, _ := fa.root(r); o != nil {
					if _, isP := fa.paramIdx[o]; isP {
						m := fmt.Sprintf("%s: returns %s, which is reachable from parameter %s", fa.pos(r.Pos()), exprText(r), o.Name())
						if !fa.seenMsg[m] {
							fa.seenMsg[m] = true
							fa.s.leaks = append(fa.s.leaks, m)
						}
					}
				}
			}
		}
		if len(x.Results) == 0 {
			for _, o := range fa.results {
				if isRefType(o.Type()) && !st.fresh[o] {
					fa.s.freshRes = false
				}
			}
		}
		return nil
	case *ast.IfStmt:
		if x.Init != nil {
			st = fa.stmt(x.Init, st)
			if st == nil {
				return nil
			}
		}
		fa.expr(x.Cond, st)
		thenSt, elseSt := st.clone(), st.clone()
		if o, isEq, ok := fa.nilTest(x.Cond); ok && o != nil && fa.isTracked(o) {
			// on the branch where the variable is nil it references no memory at all
			if isEq {
				thenSt.fresh[o] = true
			} else {
				elseSt.fresh[o] = true
			}
		}
		t := fa.block(x.Body.List, thenSt)
		var e *fstate
		if x.Else != nil {
			e = fa.stmt(x.Else, elseSt)
		} else {
			e = elseSt
		}
		return joinStates(t, e)
	case *ast.ForStmt:
		if x.Init != nil {
			st = fa.stmt(x.Init, st)
		}
		return fa.loop(st, func(s *fstate) *fstate {
			if x.Cond != nil {
				fa.expr(x.Cond, s)
			}
			e := fa.block(x.Body.List, s)
			if e != nil && x.Post != nil {
				e = fa.stmt(x.Post, e)
			}
			return e
		})
	case *ast.RangeStmt:
		fa.expr(x.X, st)
		collFresh := fa.isFresh(x.X, st)
		return fa.loop(st, func(s *fstate) *fstate {
			for _, kv := range []ast.Expr{x.Key, x.Value} {
				if kv == nil {
					continue
				}
				// elements of a collection may be shared references even if the
				// collection is fresh, unless they are not reference-typed
				f := !isRefType(info.TypeOf(kv))
				_ = collFresh
				if x.Tok == token.DEFINE || x.Tok == token.ASSIGN {
					if id, ok := ast.Unparen(kv).(*ast.Ident); ok && id.Name != "_" {
						if o := info.ObjectOf(id); o != nil && fa.isLocal(o) {
							if f {
								s.fresh[o] = true
							} else {
								delete(s.fresh, o)
								if ro, _, _ := fa.root(x.X); ro != nil {
									if pi, isP := fa.paramIdx[ro]; isP {
										s.origin[o] = pi
									} else if po, ok := s.origin[ro]; ok {
										s.origin[o] = po
									}
								}
							}
						}
					}
				}
			}
			return fa.block(x.Body.List, s)
		})
	case *ast.SwitchStmt:
		if x.Init != nil {
			st = fa.stmt(x.Init, st)
		}
		if x.Tag != nil {
			fa.expr(x.Tag, st)
		}
		return fa.cases(x.Body, st, nil, nil)
	case *ast.TypeSwitchStmt:
		if x.Init != nil {
			st = fa.stmt(x.Init, st)
		}
		var subject ast.Expr
		switch a := x.Assign.(type) {
		case *ast.ExprStmt:
			subject = a.X.(*ast.TypeAssertExpr).X
		case *ast.AssignStmt:
			subject = a.Rhs[0].(*ast.TypeAssertExpr).X
		}
		fa.expr(subject, st)
		return fa.cases(x.Body, st, subject, nil)
	case *ast.LabeledStmt:
		return fa.stmt(x.Stmt, st)
	case *ast.BranchStmt:
		if x.Tok == token.BREAK {
			fa.breaks = append(fa.breaks, st)
		}
		// continue: the state flows to the loop head (handled by the fixpoint, conservatively joined at exit)
		if x.Tok == token.CONTINUE {
			fa.breaks = append(fa.breaks, st)
		}
		return nil
	case *ast.DeferStmt:
		fa.expr(x.Call, st)
		return st
	case *ast.GoStmt:
		fa.expr(x.Call, st)
		return st
	case *ast.EmptyStmt:
		return st
	}
	return st
}

func (fa *flowAnalyzer) cases(body *ast.BlockStmt, st *fstate, subject ast.Expr, _ interface{}) *fstate {
	saved := fa.breaks
	fa.breaks = nil
	var out *fstate
	hasDefault := false
	for _, cs := range body.List {
		cc := cs.(*ast.CaseClause)
		if cc.List == nil {
			hasDefault = true
		}
		s := st.clone()
		for _, e := range cc.List {
			fa.expr(e, s)
		}
		if subject != nil {
			if o := fa.info.Implicits[cc]; o != nil {
				if fa.isFresh(subject, st) {
					s.fresh[o] = true
				} else if ro, _, _ := fa.root(subject); ro != nil {
					if pi, isP := fa.paramIdx[ro]; isP {
						s.origin[o] = pi
					} else if po, ok := st.origin[ro]; ok {
						s.origin[o] = po
					}
				}
			}
		}
		out = joinStates(out, fa.block(cc.Body, s))
	}
	if !hasDefault {
		out = joinStates(out, st)
	}
	for _, b := range fa.breaks {
		out = joinStates(out, b)
	}
	fa.breaks = saved
	return out
}

func (fa *flowAnalyzer) loop(st *fstate, body func(*fstate) *fstate) *fstate {
	if st == nil {
		return nil
	}
	saved := fa.breaks
	head := st.clone()
	var exits *fstate
	for iter := 0; iter < 8; iter++ {
		fa.breaks = nil
		end := body(head.clone())
		next := joinStates(head, end)
		for _, b := range fa.breaks {
			next = joinStates(next, b)
		}
		exits = next
		if sameState(next, head) {
			break
		}
		head = next
	}
	fa.breaks = saved
	return exits
}

// expr walks an expression for its effects: calls (arguments that are
// caller-visible), builtin writes, closures.
func (fa *flowAnalyzer) expr(e ast.Expr, st *fstate) {
	if e == nil {
		return
	}
	info := fa.info
	ast.Inspect(e, func(n ast.Node) bool {
		switch x := n.(type) {
		case *ast.FuncLit:
			// the closure body runs with (at least) the current knowledge; be
			// conservative: analyse it in a copy of the state
			saved := fa.breaks
			fa.block(x.Body.List, st.clone())
			fa.breaks = saved
			return false
		case *ast.CallExpr:
			if id, ok := ast.Unparen(x.Fun).(*ast.Ident); ok {
				if _, isB := info.ObjectOf(id).(*types.Builtin); isB {
					switch id.Name {
					case "delete", "clear", "copy":
						if len(x.Args) > 0 && !fa.isFresh(x.Args[0], st) {
							if sh, pi, why := fa.shared(x.Args[0], st, false); sh {
								fa.noteWrite(x.Pos(), fmt.Sprintf("%s(%s, …) writes %s", id.Name, exprText(x.Args[0]), why), pi)
							}
						}
					case "append":
						if len(x.Args) > 1 && !fa.isFresh(x.Args[0], st) {
							if sh, pi, why := fa.shared(x.Args[0], st, false); sh {
								fa.noteWrite(x.Pos(), fmt.Sprintf("append(%s, …) may write into the backing array of %s", exprText(x.Args[0]), why), pi)
							}
						}
					}
					return true
				}
			}
			if tv, ok := info.Types[x.Fun]; ok && tv.IsType() {
				return true
			}
			callee := calleeFunc(info, x)
			fc := frameCall{pos: fa.pos(x.Pos()), args: map[int]frameArg{}}
			describe := func(i int, a ast.Expr) {
				if !isRefType(info.TypeOf(a)) {
					return
				}
				e := a
				if _, ok := fa.exactParam(a); ok {
					// a pointer parameter converted to another pointer type is still that parameter
					for {
						e = ast.Unparen(e)
						c, isCall := e.(*ast.CallExpr)
						if !isCall {
							break
						}
						e = c.Args[0]
					}
					a = e
				}
				if u, ok := ast.Unparen(a).(*ast.UnaryExpr); ok && u.Op == token.AND {
					e = u.X
					if o, d, _ := fa.root(e); o != nil && !d && fa.isLocal(o) && !isRefType(info.TypeOf(e)) {
						return // address of a local without references
					}
					if fa.isFresh(a, st) {
						return
					}
				} else if fa.isFresh(e, st) {
					return
				}
				sh, pi, why := fa.shared(e, st, false)
				if sh {
					_, ex := fa.exactParam(a)
					fc.args[i] = frameArg{shared: true, fromParam: pi, text: exprText(a) + " (" + why + ")", exact: ex}
				}
			}
			if se, ok := ast.Unparen(x.Fun).(*ast.SelectorExpr); ok {
				if sel, ok := info.Selections[se]; ok && sel.Kind() == types.MethodVal {
					recvT := sel.Obj().Type().(*types.Signature).Recv().Type()
					_, isPtrRecv := recvT.(*types.Pointer)
					if isPtrRecv && !isPointer(info.TypeOf(se.X)) {
						// implicit &x on an addressable operand
						if o, d, p := fa.root(se.X); o != nil && !d && fa.isLocal(o) {
							// method on a local value: the callee may write the local and what it references
							if !fa.holderFresh(o, p, st) && isRefType(info.TypeOf(se.X)) {
								pi, ok := st.origin[o]
								if !ok {
									pi = -2
								}
								fc.args[-1] = frameArg{shared: true, fromParam: pi, text: exprText(se.X) + " (local value whose fields may alias memory not allocated here)"}
							}
						} else {
							describe(-1, se.X)
						}
					} else {
						describe(-1, se.X)
					}
				}
			}
			for i, a := range x.Args {
				describe(i, a)
			}
			if callee != nil {
				k := funcObjKey(callee)
				if o := callee.Origin(); o != nil {
					k = funcObjKey(o)
				}
				fc.callee = k
			} else {
				fc.callee = "?" + exprText(x.Fun)
			}
			if len(fc.args) > 0 {
				fa.s.calls = append(fa.s.calls, fc)
			}
		}
		return true
	})
}
