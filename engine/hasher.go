package main

// hash/fnv hashers as values.
//
// A hasher obtained from fnv.New64() / fnv.New64a() is modelled by the abstract
// state it holds (sort HState): New64 gives fnv.init, h.Write(bytes) and
// binary.Write(h, order, x) replace the state held by the variable h with
// fnv.write* of the old state, h.Sum64() is fnv.sum of it. The mixing function
// itself is uninterpreted: what can be proved is *which data, in which order*
// determines a hash - the shape of the argument, not its bits. The variable
// must be the only reference to the hasher (it is a local in every use in
// /repo); a hasher that is passed on or stored falls back to an opaque value.

import (
	"fmt"
	"go/ast"
	"go/types"
)

const sHState Sort = "HState"

func (vc *VC) declareHasher() {
	vc.ss.declare(&sortInfo{Name: sHState, Kind: "opaque", Decl: `(declare-sort HState 0)
(declare-fun fnv.init () HState)
(declare-fun fnv.inita () HState)
(declare-fun fnv.writeStr (HState Str) HState)
(declare-fun fnv.writeU64 (HState Int) HState)
(declare-fun fnv.sum (HState) Int)
(assert (forall ((h HState)) (! (and (<= 0 (fnv.sum h)) (<= (fnv.sum h) 18446744073709551615)) :pattern ((fnv.sum h)))))`})
}

// evalHasher handles the calls that create, feed and read a hasher.
func (vc *VC) evalHasher(key string, call *ast.CallExpr, st *State) ([]Value, bool) {
	switch key {
	case "hash/fnv.New64", "hash/fnv.New64a":
		vc.declareHasher()
		c := "fnv.init"
		if key == "hash/fnv.New64a" {
			c = "fnv.inita"
		}
		return []Value{Term{c, sHState, nil}}, true
	case "io.Writer.Write", "hash.Hash64.Sum64":
		se, ok := ast.Unparen(call.Fun).(*ast.SelectorExpr)
		if !ok {
			return nil, false
		}
		id, ok := ast.Unparen(se.X).(*ast.Ident)
		if !ok {
			return nil, false
		}
		cur, ok := vc.lookupVar(id, st)
		if !ok || cur.Sort != sHState {
			return nil, false
		}
		if key == "hash.Hash64.Sum64" {
			return []Value{Term{fmt.Sprintf("(fnv.sum %s)", cur.S), SInt, types.Typ[types.Uint64]}}, true
		}
		// h.Write([]byte(s)) with s a string (or string-typed) expression
		arg := ast.Unparen(call.Args[0])
		conv, isCall := arg.(*ast.CallExpr)
		if !isCall || len(conv.Args) != 1 {
			return nil, false
		}
		if tv, ok := vc.cur().info.Types[conv.Fun]; !ok || !tv.IsType() {
			return nil, false
		}
		s, ok := vc.evalExprNoSafety(conv.Args[0], st).(Term)
		if !ok || s.Sort != SStr {
			return nil, false
		}
		vc.setVar(id, st, Term{fmt.Sprintf("(fnv.writeStr %s %s)", cur.S, s.S), sHState, nil})
		return []Value{vc.unknown("n", types.Typ[types.Int]), Term{"err.nil", SErr, nil}}, true
	case "encoding/binary.Write":
		if len(call.Args) != 3 {
			return nil, false
		}
		id, ok := ast.Unparen(call.Args[0]).(*ast.Ident)
		if !ok {
			return nil, false
		}
		cur, ok := vc.lookupVar(id, st)
		if !ok || cur.Sort != sHState {
			return nil, false
		}
		x, ok := vc.evalExprNoSafety(call.Args[2], st).(Term)
		if !ok || x.Sort != SInt {
			return nil, false
		}
		vc.setVar(id, st, Term{fmt.Sprintf("(fnv.writeU64 %s %s)", cur.S, x.S), sHState, nil})
		return []Value{Term{"err.nil", SErr, nil}}, true
	}
	return nil, false
}

// lookupVar / setVar: the value a local variable holds in the current state.
func (vc *VC) lookupVar(id *ast.Ident, st *State) (Term, bool) {
	obj := vc.cur().info.ObjectOf(id)
	if obj == nil {
		return Term{}, false
	}
	v, ok := st.vars[obj]
	if !ok {
		return Term{}, false
	}
	t, ok := v.(Term)
	return t, ok
}

func (vc *VC) setVar(id *ast.Ident, st *State, nv Term) {
	if obj := vc.cur().info.ObjectOf(id); obj != nil {
		st.vars[obj] = nv
	}
}
