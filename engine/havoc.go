package main

// Writes of opaque callees through map and slice arguments.
//
// A callee that is neither inlined nor called by contract is "havoced": its
// results are unknown. Pointer arguments were always havoced with it; maps and
// slices are references too, and a callee may write their entries
// (maps.DeleteFunc, maps.Copy, sort.Slice, a repository helper that fills a
// map). Which callees do not write through which argument is decided by the
// frame checker: its table of standard-library functions and its
// interprocedural summaries of repository functions.

import (
	"fmt"
	"go/ast"
	"go/types"
	"strings"
)

func (w *World) frames() *frameChecker {
	if w.fcx == nil {
		w.fcx = &frameChecker{w: w, sums: map[string]*frameSummary{}}
	}
	return w.fcx
}

// calleeMayWriteArg: may the callee write memory reachable from its i-th
// argument? Unknown callees (function values) may.
func (vc *VC) calleeMayWriteArg(callee *types.Func, i int) bool {
	if callee == nil {
		return true
	}
	key := funcObjKey(callee)
	if o := callee.Origin(); o != nil {
		key = funcObjKey(o)
	}
	if m, ok := stdlibMods[key]; ok {
		for _, j := range m {
			if j == i {
				return true
			}
		}
		return false
	}
	if vc.w.funcs[key] == nil && len(vc.w.frames().implMethods(key)) == 0 {
		return !pureForeign(key)
	}
	mods := vc.w.frames().calleeMods(key, map[string]bool{}, 0)
	return mods == nil || mods[i]
}

// havocContents replaces the entries of a map / the elements of a slice held
// by an lvalue with unknown ones; nil-ness and (for slices) the length are
// the caller's and stay.
func (vc *VC) havocContents(a ast.Expr, st *State) {
	a = ast.Unparen(a)
	switch a.(type) {
	case *ast.Ident, *ast.SelectorExpr, *ast.IndexExpr, *ast.SliceExpr:
	default:
		return // a literal or the result of a call: nothing in the state refers to it
	}
	t := vc.typeOf(a)
	if t == nil {
		return
	}
	save := vc.safety
	vc.safety = false
	defer func() { vc.safety = save }()
	old, ok := vc.evalExpr(a, st).(Term)
	if !ok {
		return
	}
	si := vc.ss.info[old.Sort]
	if si != nil && si.Kind == "struct" {
		// a struct handed over by value: the callee cannot change the caller's
		// copy, but it can write through the maps, slices and pointers it holds
		if nv, changed := vc.havocRefFields(old, st, 0); changed {
			if _, isSl := a.(*ast.SliceExpr); !isSl {
				vc.store(a, st, nv)
			}
		}
		return
	}
	if si == nil || (si.Kind != "map" && si.Kind != "slice") {
		return
	}
	nv := vc.unknown("hvc", t)
	S := string(old.Sort)
	if si.Kind == "map" {
		vc.assume(st.pc, Term{fmt.Sprintf("(= (isnil.%s %s) (isnil.%s %s))", S, nv.S, S, old.S), SBool, nil})
	} else {
		vc.assume(st.pc, Term{fmt.Sprintf("(and (= (isnil.%s %s) (isnil.%s %s)) (= (len.%s %s) (len.%s %s)))", S, nv.S, S, old.S, S, nv.S, S, old.S), SBool, nil})
	}
	if _, isSl := a.(*ast.SliceExpr); isSl {
		vc.storeSliceArg(a, nv, st)
		return
	}
	vc.store(a, st, nv)
}

// havocRefFields rebuilds a struct value with the contents of its map and
// slice fields and the pointees of its pointer fields replaced by unknown
// ones (nil-ness and lengths kept), two levels of nested structs deep.
func (vc *VC) havocRefFields(old Term, st *State, depth int) (Term, bool) {
	si := vc.ss.info[old.Sort]
	if si == nil || si.Kind != "struct" || depth > 2 || len(si.Fields) == 0 {
		return old, false
	}
	changed := false
	var parts []string
	for _, f := range si.Fields {
		cur := Term{fmt.Sprintf("(%s.%s %s)", old.Sort, f.Name, old.S), f.Sort, f.T}
		fi := vc.ss.info[f.Sort]
		switch {
		case fi != nil && (fi.Kind == "map" || fi.Kind == "slice"):
			nv := vc.freshOfSort("hvf", f.Sort, f.T)
			if f.T != nil {
				if fact := vc.rangeFacts(nv, f.T, 0); fact.S != "true" {
					vc.assume(tBool(true), fact)
				}
			}
			S := string(f.Sort)
			if fi.Kind == "map" {
				vc.assume(st.pc, Term{fmt.Sprintf("(= (isnil.%s %s) (isnil.%s %s))", S, nv.S, S, cur.S), SBool, nil})
			} else {
				vc.assume(st.pc, Term{fmt.Sprintf("(and (= (isnil.%s %s) (isnil.%s %s)) (= (len.%s %s) (len.%s %s)))", S, nv.S, S, cur.S, S, nv.S, S, cur.S), SBool, nil})
			}
			parts = append(parts, nv.S)
			changed = true
		case fi != nil && fi.Kind == "ptr" && f.T != nil:
			if p, ok := vc.underlying(f.T).(*types.Pointer); ok {
				inner := vc.unknown("hvf", p.Elem())
				parts = append(parts, fmt.Sprintf("(ite ((_ is ref.%s) %s) (ref.%s %s) %s)", f.Sort, cur.S, f.Sort, inner.S, cur.S))
				changed = true
			} else {
				parts = append(parts, cur.S)
			}
		case fi != nil && fi.Kind == "struct":
			nv, ch := vc.havocRefFields(cur, st, depth+1)
			parts = append(parts, nv.S)
			changed = changed || ch
		default:
			parts = append(parts, cur.S)
		}
	}
	if !changed {
		return old, false
	}
	return Term{fmt.Sprintf("(mk.%s %s)", old.Sort, strings.Join(parts, " ")), old.Sort, old.T}, true
}
