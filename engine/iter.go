package main

// iter-canonical: a method that returns an iterator over a map-typed field
// must have exactly the canonical shape
//
//	return func(yield func(K, V) bool) { for k, v := range <recv>[.field] { if !yield(k, v) { return|break } } }
//
// or `return maps.All(<recv>[.field])`. For such a body the iterator yields
// every entry of the map exactly once and nothing else (the semantics of Go's
// map range is trusted), which justifies describing it by the membership
// predicate of the map in contracts.

import (
	"go/ast"
	"go/token"
)

func iterCanonical(fi *FuncInfo) (bool, string) {
	body := fi.Decl.Body
	if body == nil || len(body.List) != 1 {
		return false, "body is not a single return statement"
	}
	ret, ok := body.List[0].(*ast.ReturnStmt)
	if !ok || len(ret.Results) != 1 {
		return false, "body is not a single return statement"
	}
	recv := ""
	if fi.Decl.Recv != nil && len(fi.Decl.Recv.List) > 0 && len(fi.Decl.Recv.List[0].Names) > 0 {
		recv = fi.Decl.Recv.List[0].Names[0].Name
	}
	isRecvMap := func(e ast.Expr) bool {
		switch x := ast.Unparen(e).(type) {
		case *ast.Ident:
			return x.Name == recv
		case *ast.SelectorExpr:
			id, ok := x.X.(*ast.Ident)
			return ok && id.Name == recv
		}
		return false
	}
	switch r := ast.Unparen(ret.Results[0]).(type) {
	case *ast.CallExpr:
		if se, ok := r.Fun.(*ast.SelectorExpr); ok {
			if id, ok := se.X.(*ast.Ident); ok && id.Name == "maps" && se.Sel.Name == "All" && len(r.Args) == 1 && isRecvMap(r.Args[0]) {
				return true, "maps.All over the receiver's map"
			}
		}
		return false, "returned call is not maps.All(receiver map)"
	case *ast.FuncLit:
		if r.Type.Params == nil || len(r.Type.Params.List) != 1 || len(r.Type.Params.List[0].Names) != 1 {
			return false, "iterator function must take exactly one yield parameter"
		}
		yield := r.Type.Params.List[0].Names[0].Name
		if len(r.Body.List) != 1 {
			return false, "iterator body is not a single range loop"
		}
		rng, ok := r.Body.List[0].(*ast.RangeStmt)
		if !ok || rng.Tok != token.DEFINE || !isRecvMap(rng.X) {
			return false, "iterator body is not a range over the receiver's map"
		}
		var vars []string
		for _, e := range []ast.Expr{rng.Key, rng.Value} {
			if e == nil {
				continue
			}
			id, ok := e.(*ast.Ident)
			if !ok {
				return false, "range variables must be identifiers"
			}
			vars = append(vars, id.Name)
		}
		if len(rng.Body.List) != 1 {
			return false, "loop body is not a single `if !yield(...)`"
		}
		ifs, ok := rng.Body.List[0].(*ast.IfStmt)
		if !ok || ifs.Init != nil || ifs.Else != nil || len(ifs.Body.List) != 1 {
			return false, "loop body is not a single `if !yield(...) { return }`"
		}
		un, ok := ifs.Cond.(*ast.UnaryExpr)
		if !ok || un.Op != token.NOT {
			return false, "condition is not !yield(...)"
		}
		call, ok := un.X.(*ast.CallExpr)
		if !ok {
			return false, "condition is not !yield(...)"
		}
		fid, ok := call.Fun.(*ast.Ident)
		if !ok || fid.Name != yield {
			return false, "condition does not call the yield parameter"
		}
		// yielded arguments: the range variables in order, skipping "_" keys
		var want []string
		for _, v := range vars {
			if v != "_" {
				want = append(want, v)
			}
		}
		if len(call.Args) != len(want) {
			return false, "yield is not called with the range variables"
		}
		for i, a := range call.Args {
			id, ok := a.(*ast.Ident)
			if !ok || id.Name != want[i] {
				return false, "yield is not called with the range variables in order"
			}
		}
		switch s := ifs.Body.List[0].(type) {
		case *ast.ReturnStmt:
			if len(s.Results) != 0 {
				return false, "unexpected return value"
			}
		case *ast.BranchStmt:
			if s.Tok != token.BREAK {
				return false, "early exit is neither return nor break"
			}
		default:
			return false, "early exit is neither return nor break"
		}
		return true, "canonical range-and-yield loop over the receiver's map"
	}
	return false, "returned value is neither an iterator literal nor maps.All"
}
