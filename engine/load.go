package main

// Loading /repo, collecting function bodies and contract blocks.

import (
	"fmt"
	"go/ast"
	"go/token"
	"go/types"
	"os"
	"path/filepath"
	"sort"
	"strings"
	"sync"

	"golang.org/x/tools/go/packages"
)

const modPath = "github.com/cedar-policy/cedar-go"

type FuncInfo struct {
	Key  string
	Decl *ast.FuncDecl
	Pkg  *packages.Package
	Obj  *types.Func
}

type World struct {
	repo     string
	fset     *token.FileSet
	pkgs     map[string]*packages.Package // by path
	funcs    map[string]*FuncInfo
	byObj    map[*types.Func]*FuncInfo
	ordMu    sync.Mutex
	patOnce  sync.Once
	fcx      *frameChecker // frame summaries, shared by the frame obligations and by havocCall
	patSpecNames map[string]bool
	loopOrds map[*ast.FuncDecl]map[token.Pos]string
	cs       *ContractSet
	opaque   map[string]bool
	aliases  map[string]string
	strLits  map[string]int
	strOrder []string
	globalsWritten map[types.Object]bool
	specByName map[string]*SpecFunc
	implCache  map[string][]types.Type
}

func loadWorld(repo string, specDir string) (*World, error) {
	fset := token.NewFileSet()
	cfg := &packages.Config{
		Mode: packages.NeedName | packages.NeedFiles | packages.NeedCompiledGoFiles | packages.NeedImports |
			packages.NeedTypes | packages.NeedSyntax | packages.NeedTypesInfo | packages.NeedDeps | packages.NeedTypesSizes,
		Dir:        repo,
		Fset:       fset,
		BuildFlags: []string{"-tags=verif"},
		Env:        append(os.Environ(), "GOFLAGS=-mod=mod", "GOPROXY=off", "GOSUMDB=off", "GOTOOLCHAIN=local"),
	}
	pkgs, err := packages.Load(cfg, "./...")
	if err != nil {
		return nil, err
	}
	w := &World{repo: repo, fset: fset, pkgs: map[string]*packages.Package{}, funcs: map[string]*FuncInfo{},
		byObj: map[*types.Func]*FuncInfo{}, cs: newContractSet(), opaque: map[string]bool{}, aliases: map[string]string{},
		strLits: map[string]int{}, globalsWritten: map[types.Object]bool{}, specByName: map[string]*SpecFunc{},
		implCache: map[string][]types.Type{}}
	var errs []string
	packages.Visit(pkgs, nil, func(p *packages.Package) {
		w.pkgs[p.PkgPath] = p
		for _, e := range p.Errors {
			if strings.HasPrefix(p.PkgPath, modPath) {
				errs = append(errs, e.Error())
			}
		}
	})
	if len(errs) > 0 {
		return nil, fmt.Errorf("type errors in repo: %s", strings.Join(errs, "; "))
	}
	for _, p := range w.pkgs {
		if !w.inRepo(p.Types) {
			continue
		}
		for _, f := range p.Syntax {
			fname := fset.Position(f.Pos()).Filename
			if strings.HasSuffix(fname, "_test.go") {
				continue
			}
			for _, d := range f.Decls {
				fd, ok := d.(*ast.FuncDecl)
				if !ok {
					continue
				}
				obj, _ := p.TypesInfo.Defs[fd.Name].(*types.Func)
				if obj == nil {
					continue
				}
				key := funcObjKey(obj)
				fi := &FuncInfo{Key: key, Decl: fd, Pkg: p, Obj: obj}
				w.funcs[key] = fi
				w.byObj[obj] = fi
			}
			// record writes to package-level variables
			ast.Inspect(f, func(n ast.Node) bool {
				switch s := n.(type) {
				case *ast.AssignStmt:
					for _, l := range s.Lhs {
						w.noteGlobalWrite(p, l)
					}
				case *ast.IncDecStmt:
					w.noteGlobalWrite(p, s.X)
				case *ast.UnaryExpr:
					if s.Op == token.AND {
						w.noteGlobalWrite(p, s.X)
					}
				}
				return true
			})
			if strings.HasSuffix(fname, "zz_contracts_verif.go") {
				if err := w.collectContracts(f, fname, p.PkgPath); err != nil {
					return nil, err
				}
			}
		}
	}
	// spec files for assumed contracts
	if specDir != "" {
		files, _ := filepath.Glob(filepath.Join(specDir, "*.spec"))
		sort.Strings(files)
		for _, sf := range files {
			data, err := os.ReadFile(sf)
			if err != nil {
				return nil, err
			}
			var lines []string
			var nos []int
			for i, ln := range strings.Split(string(data), "\n") {
				t := strings.TrimSpace(ln)
				if strings.HasPrefix(t, "//@") {
					lines = append(lines, strings.TrimPrefix(t, "//@"))
					nos = append(nos, i+1)
				}
			}
			if err := w.cs.parseContractLines(sf, "", lines, nos); err != nil {
				return nil, err
			}
		}
	}
	for _, o := range w.cs.Opaques {
		t := o.Type
		if !strings.Contains(t, "/") && o.Pkg != "" && !strings.Contains(t, ".") {
			t = o.Pkg + "." + t
		} else if o.Pkg != "" && strings.Count(t, ".") == 1 && !strings.Contains(t, "/") {
			// pkgname.Type -> resolve import
			t = w.resolveQualified(o.Pkg, t)
		}
		// an `opaque T` declaration written in package P's contract file makes T
		// abstract in the verification conditions of P's functions
		w.opaque[t+"@"+o.Pkg] = true
	}
	for a, b := range w.cs.Aliases {
		w.aliases[a] = b
	}
	w.applySweeps()
	for _, sf := range w.cs.Specs {
		if _, dup := w.specByName[sf.Name]; dup {
			return nil, fmt.Errorf("%s:%d: duplicate spec func %s", sf.File, sf.Line, sf.Name)
		}
		w.specByName[sf.Name] = sf
	}
	return w, nil
}

func (w *World) noteGlobalWrite(p *packages.Package, e ast.Expr) {
	for {
		switch x := e.(type) {
		case *ast.ParenExpr:
			e = x.X
			continue
		case *ast.IndexExpr:
			e = x.X
			continue
		case *ast.SelectorExpr:
			if obj := p.TypesInfo.Uses[x.Sel]; obj != nil {
				if v, ok := obj.(*types.Var); ok && !v.IsField() && v.Parent() == v.Pkg().Scope() {
					w.globalsWritten[obj] = true
					return
				}
			}
			e = x.X
			continue
		case *ast.Ident:
			obj := p.TypesInfo.Uses[x]
			if v, ok := obj.(*types.Var); ok && v.Pkg() != nil && v.Parent() == v.Pkg().Scope() {
				w.globalsWritten[obj] = true
			}
		}
		return
	}
}

func (w *World) resolveQualified(fromPkg, q string) string {
	parts := strings.SplitN(q, ".", 2)
	p := w.pkgs[fromPkg]
	if p == nil {
		return q
	}
	for path, ip := range p.Imports {
		if ip.Name == parts[0] {
			return path + "." + parts[1]
		}
	}
	if p.Name == parts[0] {
		return fromPkg + "." + parts[1]
	}
	return q
}

func (w *World) inRepo(p *types.Package) bool {
	return p != nil && strings.HasPrefix(p.Path(), modPath)
}

func funcObjKey(obj *types.Func) string {
	sig := obj.Type().(*types.Signature)
	pk := ""
	if obj.Pkg() != nil {
		pk = obj.Pkg().Path()
	}
	if r := sig.Recv(); r != nil {
		t := r.Type()
		if p, ok := t.(*types.Pointer); ok {
			t = p.Elem()
		}
		t = types.Unalias(t)
		if n, ok := t.(*types.Named); ok {
			return pk + "." + n.Obj().Name() + "." + obj.Name()
		}
		return pk + ".?." + obj.Name()
	}
	return pk + "." + obj.Name()
}

func (w *World) collectContracts(f *ast.File, fname, pkgPath string) error {
	var lines []string
	var nos []int
	for _, cg := range f.Comments {
		for _, c := range cg.List {
			t := c.Text
			if strings.HasPrefix(t, "//@") {
				lines = append(lines, strings.TrimPrefix(t, "//@"))
				nos = append(nos, w.fset.Position(c.Pos()).Line)
			}
		}
	}
	return w.cs.parseContractLines(fname, pkgPath, lines, nos)
}

// lookupType resolves "pkg/path.Name" to a named type.
func (w *World) lookupType(full string) types.Type {
	i := strings.LastIndex(full, ".")
	if i < 0 {
		return nil
	}
	p := w.pkgs[full[:i]]
	if p == nil {
		return nil
	}
	o := p.Types.Scope().Lookup(full[i+1:])
	if o == nil {
		return nil
	}
	return o.Type()
}

// resolveTypeText resolves a type expression written in a contract, in the
// scope of package pkgPath.
func (w *World) resolveTypeText(pkgPath, text string) (types.Type, error) {
	switch text {
	case "int":
		return types.Typ[types.Int], nil
	case "bool":
		return types.Typ[types.Bool], nil
	case "string":
		return types.Typ[types.String], nil
	case "error":
		return types.Universe.Lookup("error").Type(), nil
	}
	p := w.pkgs[pkgPath]
	if p == nil {
		// spec files: allow fully qualified names path.Name
		if t := w.lookupType(text); t != nil {
			return t, nil
		}
		return nil, fmt.Errorf("cannot resolve type %q (no package scope)", text)
	}
	// structural forms are resolved here so that any import of the package
	// (in whatever file) is usable, independent of file scopes
	switch {
	case text == "struct{}":
		return types.NewStruct(nil, nil), nil
	case strings.HasPrefix(text, "map["):
		// map[K]V with K free of brackets
		if j := strings.Index(text, "]"); j > 0 {
			k, err := w.resolveTypeText(pkgPath, text[4:j])
			if err != nil {
				return nil, err
			}
			v, err := w.resolveTypeText(pkgPath, text[j+1:])
			if err != nil {
				return nil, err
			}
			return types.NewMap(k, v), nil
		}
	case strings.HasPrefix(text, "*"):
		t, err := w.resolveTypeText(pkgPath, text[1:])
		if err != nil {
			return nil, err
		}
		return types.NewPointer(t), nil
	case strings.HasPrefix(text, "[]"):
		t, err := w.resolveTypeText(pkgPath, text[2:])
		if err != nil {
			return nil, err
		}
		return types.NewSlice(t), nil
	case strings.HasSuffix(text, "]") && strings.Contains(text, "[") && !strings.HasPrefix(text, "map["):
		i := strings.Index(text, "[")
		base, err := w.resolveTypeText(pkgPath, text[:i])
		if err != nil {
			return nil, err
		}
		var targs []types.Type
		depth, start := 0, i+1
		for k := i + 1; k < len(text); k++ {
			switch text[k] {
			case '[':
				depth++
			case ']':
				if depth == 0 {
					a, err := w.resolveTypeText(pkgPath, strings.TrimSpace(text[start:k]))
					if err != nil {
						return nil, err
					}
					targs = append(targs, a)
				} else {
					depth--
				}
			case ',':
				if depth == 0 {
					a, err := w.resolveTypeText(pkgPath, strings.TrimSpace(text[start:k]))
					if err != nil {
						return nil, err
					}
					targs = append(targs, a)
					start = k + 1
				}
			}
		}
		inst, err := types.Instantiate(nil, base, targs, false)
		if err != nil {
			return nil, fmt.Errorf("cannot instantiate %q: %v", text, err)
		}
		return inst, nil
	}
	if strings.Count(text, ".") == 1 && !strings.ContainsAny(text, "[]* ") {
		if t := w.lookupType(w.resolveQualified(pkgPath, text)); t != nil {
			return t, nil
		}
	}
	// build a scope that also knows the imports of all files of the package
	tv, err := types.Eval(w.fset, p.Types, w.evalPos(p), text)
	if err != nil {
		// try all imports by name
		if t := w.lookupType(w.resolveQualified(pkgPath, strings.TrimLeft(text, "*[]"))); t != nil {
			pre := text[:len(text)-len(strings.TrimLeft(text, "*[]"))]
			for i := len(pre) - 1; i >= 0; i-- {
				switch pre[i] {
				case '*':
					t = types.NewPointer(t)
				case ']':
					t = types.NewSlice(t)
					i--
				}
			}
			return t, nil
		}
		return nil, fmt.Errorf("cannot resolve type %q in %s: %v", text, pkgPath, err)
	}
	return tv.Type, nil
}

// evalPos finds a position inside the contract file of the package (so that
// file-scope imports are visible to types.Eval), else any file.
func (w *World) evalPos(p *packages.Package) token.Pos {
	var any token.Pos
	for _, f := range p.Syntax {
		fname := w.fset.Position(f.Pos()).Filename
		if strings.HasSuffix(fname, "zz_contracts_verif.go") {
			return f.End() - 1
		}
		if any == token.NoPos && !strings.HasSuffix(fname, "_test.go") {
			any = f.End() - 1
		}
	}
	return any
}

// string literal constants
func (w *World) strLit(v string, t types.Type) Term {
	id, ok := w.strLits[v]
	if !ok {
		id = len(w.strLits)
		w.strLits[v] = id
		w.strOrder = append(w.strOrder, v)
	}
	if t == nil {
		t = types.Typ[types.String]
	}
	return Term{fmt.Sprintf("lit.%d", id), SStr, t}
}

func (w *World) strLitDecls() string {
	var sb strings.Builder
	for id, v := range w.strOrder {
		fmt.Fprintf(&sb, "(declare-const lit.%d Str) ; %q\n(assert (= (gs.len lit.%d) %d))\n", id, v, id, len(v))
		for k := 0; k < len(v) && k < 64; k++ {
			fmt.Fprintf(&sb, "(assert (= (gs.at lit.%d %d) %d))\n", id, k, v[k])
		}
	}
	// distinctness of literals that differ
	if len(w.strOrder) > 1 {
		sb.WriteString("(assert (distinct")
		for id := range w.strOrder {
			fmt.Fprintf(&sb, " lit.%d", id)
		}
		sb.WriteString("))\n")
	}
	return sb.String()
}

// implementers of an interface among all named types of repo packages
func (w *World) implementers(iface *types.Interface, key string, ifaceT types.Type) []types.Type {
	if r, ok := w.implCache[key]; ok {
		return r
	}
	var out []types.Type
	// an instantiated generic interface (mapset.Container[K]) is implemented by
	// the repository's generic types instantiated with the same arguments
	var targs []types.Type
	if n, ok := types.Unalias(ifaceT).(*types.Named); ok && n.TypeArgs() != nil {
		for i := 0; i < n.TypeArgs().Len(); i++ {
			targs = append(targs, n.TypeArgs().At(i))
		}
	}
	var paths []string
	for path := range w.pkgs {
		paths = append(paths, path)
	}
	sort.Strings(paths)
	for _, path := range paths {
		p := w.pkgs[path]
		if !w.inRepo(p.Types) {
			continue
		}
		sc := p.Types.Scope()
		for _, name := range sc.Names() {
			tn, ok := sc.Lookup(name).(*types.TypeName)
			if !ok || tn.IsAlias() {
				continue
			}
			t := tn.Type()
			if _, isIface := t.Underlying().(*types.Interface); isIface {
				continue
			}
			if n, ok := t.(*types.Named); ok && n.TypeParams().Len() > 0 {
				if len(targs) != n.TypeParams().Len() {
					continue
				}
				inst, err := types.Instantiate(nil, n, targs, true)
				if err != nil {
					continue
				}
				t = inst
			}
			if types.Implements(t, iface) {
				out = append(out, t)
				// a generic container that is also handled through pointers (it has
				// pointer-receiver methods: *MapSet[K]) may be stored in the interface
				// as *T as well. For the non-generic value types of the repository
				// (types.Long, types.Record, ...) the closed world assumes storage by
				// value, as every constructor in the repository does.
				if n, ok := t.(*types.Named); ok && n.TypeArgs() != nil && n.TypeArgs().Len() > 0 {
					for i := 0; i < n.NumMethods(); i++ {
						if sg, ok := n.Method(i).Type().(*types.Signature); ok && sg.Recv() != nil {
							if _, isPtr := sg.Recv().Type().(*types.Pointer); isPtr {
								out = append(out, types.NewPointer(t))
								break
							}
						}
					}
				}
			} else if types.Implements(types.NewPointer(t), iface) {
				out = append(out, types.NewPointer(t))
			}
		}
	}
	w.implCache[key] = out
	return out
}

// ---- package-level variable initialisers

type globalInitInfo struct {
	expr ast.Expr
	info *types.Info
}

func (w *World) findGlobalInit(o *types.Var) *globalInitInfo {
	if o.Pkg() == nil {
		return nil
	}
	p := w.pkgs[o.Pkg().Path()]
	if p == nil {
		return nil
	}
	for _, f := range p.Syntax {
		for _, d := range f.Decls {
			gd, ok := d.(*ast.GenDecl)
			if !ok || gd.Tok != token.VAR {
				continue
			}
			for _, sp := range gd.Specs {
				vs := sp.(*ast.ValueSpec)
				for i, n := range vs.Names {
					if p.TypesInfo.Defs[n] == o && i < len(vs.Values) && len(vs.Values) == len(vs.Names) {
						return &globalInitInfo{vs.Values[i], p.TypesInfo}
					}
				}
			}
		}
	}
	return nil
}

func (w *World) globalInit(o *types.Var) ast.Expr {
	if gi := w.findGlobalInit(o); gi != nil {
		return gi.expr
	}
	return nil
}

func (w *World) globalInitInfo(o *types.Var) *types.Info {
	if gi := w.findGlobalInit(o); gi != nil {
		return gi.info
	}
	return nil
}

// rootErrVar follows `var a = pkg.B` chains of error sentinels.
func (w *World) rootErrVar(o *types.Var) *types.Var {
	for depth := 0; depth < 5; depth++ {
		gi := w.findGlobalInit(o)
		if gi == nil {
			return o
		}
		var id *ast.Ident
		switch x := gi.expr.(type) {
		case *ast.Ident:
			id = x
		case *ast.SelectorExpr:
			id = x.Sel
		default:
			return o
		}
		nv, ok := gi.info.ObjectOf(id).(*types.Var)
		if !ok {
			return o
		}
		o = nv
	}
	return o
}

var errIDs = map[string]int{}

func (w *World) errID(o *types.Var) int {
	k := o.Pkg().Path() + "." + o.Name()
	if id, ok := errIDs[k]; ok {
		return id
	}
	errIDs[k] = len(errIDs) + 1
	return errIDs[k]
}
