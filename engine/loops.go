package main

// Loops: cut at invariants. for / range over slice, string, int, map,
// iterator functions.

import (
	"fmt"
	"go/ast"
	"go/token"
	"go/types"
	"os"
	"sort"
	"strings"
)

// nextLoopOrd returns the ordinal ("1", "2.1", ...) of the loop being entered.
func (fr *frame) enterLoop() string {
	if len(fr.loopOrd) == 0 {
		fr.loopOrd = []int{0}
	}
	fr.loopOrd[len(fr.loopOrd)-1]++
	var parts []string
	for _, n := range fr.loopOrd {
		parts = append(parts, fmt.Sprint(n))
	}
	fr.loopOrd = append(fr.loopOrd, 0)
	return strings.Join(parts, ".")
}
func (fr *frame) leaveLoop() { fr.loopOrd = fr.loopOrd[:len(fr.loopOrd)-1] }

// staticLoopOrd: the ordinal of a loop is its position in the source of the
// function declaration that lexically contains it ("1", "2", "2.1" for the
// first loop nested in the second, ...), counting loops inside function
// literals too. The owner is the frame of that declaration, which carries the
// loop's contract - a closure body inlined into a callee keeps the ordinals
// and the loop contracts of the function it was written in.
func (vc *VC) staticLoopOrd(loop ast.Node) (string, *frame) {
	pos := loop.Pos()
	for i := len(vc.frames) - 1; i >= 0; i-- {
		fr := vc.frames[i]
		if fr.fi == nil || fr.fi.Decl == nil || pos < fr.fi.Decl.Pos() || pos > fr.fi.Decl.End() {
			continue
		}
		vc.w.ordMu.Lock()
		m := vc.w.loopOrds[fr.fi.Decl]
		if m == nil {
			m = map[token.Pos]string{}
			var walk func(n ast.Node, prefix string)
			walk = func(n ast.Node, prefix string) {
				k := 0
				ast.Inspect(n, func(c ast.Node) bool {
					if c == nil || c == n {
						return true
					}
					var body *ast.BlockStmt
					switch l := c.(type) {
					case *ast.ForStmt:
						body = l.Body
					case *ast.RangeStmt:
						body = l.Body
					default:
						return true
					}
					k++
					ord := prefix + fmt.Sprint(k)
					m[c.Pos()] = ord
					walk(body, ord+".")
					return false
				})
			}
			walk(fr.fi.Decl, "")
			if vc.w.loopOrds == nil {
				vc.w.loopOrds = map[*ast.FuncDecl]map[token.Pos]string{}
			}
			vc.w.loopOrds[fr.fi.Decl] = m
		}
		ord := m[pos]
		vc.w.ordMu.Unlock()
		if os.Getenv("GOVC_TRACE") != "" {
			fmt.Fprintf(os.Stderr, "loop at %s: ord %q in %s (fc=%v)\n", vc.w.fset.Position(pos), ord, fr.name, fr.fc != nil)
		}
		if ord != "" {
			if fr.fc == nil {
				// a closure frame: the contract is on the enclosing declaration
				for j := i - 1; j >= 0; j-- {
					if vc.frames[j].fi == fr.fi && vc.frames[j].fc != nil {
						return ord, vc.frames[j]
					}
				}
			}
			return ord, fr
		}
	}
	return vc.cur().enterLoopDyn(), vc.cur()
}

func (fr *frame) enterLoopDyn() string {
	fr.dynLoops++
	return fmt.Sprintf("dyn%d", fr.dynLoops)
}

// modifiedVars: variables that may change in the loop (syntactic over-approximation).
func (vc *VC) modifiedVars(nodes ...ast.Node) []types.Object {
	info := vc.cur().info
	set := map[types.Object]bool{}
	var root func(e ast.Expr) types.Object
	root = func(e ast.Expr) types.Object {
		switch x := e.(type) {
		case *ast.Ident:
			return info.ObjectOf(x)
		case *ast.ParenExpr:
			return root(x.X)
		case *ast.SelectorExpr:
			if sel, ok := info.Selections[x]; ok && sel.Kind() == types.FieldVal {
				return root(x.X)
			}
			return nil
		case *ast.IndexExpr:
			return root(x.X)
		case *ast.StarExpr:
			return root(x.X)
		case *ast.SliceExpr:
			return root(x.X)
		case *ast.UnaryExpr:
			if x.Op == token.AND {
				return root(x.X)
			}
		}
		return nil
	}
	mark := func(e ast.Expr) {
		if o := root(e); o != nil {
			if _, ok := o.(*types.Var); ok {
				set[o] = true
			}
		}
	}
	for _, n := range nodes {
		if n == nil {
			continue
		}
		ast.Inspect(n, func(n ast.Node) bool {
			switch x := n.(type) {
			case *ast.AssignStmt:
				for _, l := range x.Lhs {
					mark(l)
				}
			case *ast.IncDecStmt:
				mark(x.X)
			case *ast.RangeStmt:
				if x.Tok == token.ASSIGN {
					if x.Key != nil {
						mark(x.Key)
					}
					if x.Value != nil {
						mark(x.Value)
					}
				}
			case *ast.UnaryExpr:
				if x.Op == token.AND {
					mark(x.X)
				}
			case *ast.CallExpr:
				// receiver of pointer-receiver methods; pointer/slice/map args
				callee := vc.calleeOf(x)
				var fcn *FuncContract
				if callee != nil {
					fcn = vc.w.cs.Funcs[funcObjKey(callee)]
				}
				if se, ok := x.Fun.(*ast.SelectorExpr); ok {
					if sel, ok := info.Selections[se]; ok && sel.Kind() == types.MethodVal {
						fn := sel.Obj().(*types.Func)
						sig := fn.Type().(*types.Signature)
						if sig.Recv() != nil {
							if _, isPtr := sig.Recv().Type().(*types.Pointer); isPtr {
								if fcn == nil || contains(fcn.Modifies, recvName(sig)) || fcn.Inline || fcn.NoBody == false && len(fcn.Ensures) == 0 {
									if fcn == nil || !fcn.Pure {
										mark(se.X)
									}
								}
							}
						}
					}
				}
				if callee != nil {
					sig := callee.Type().(*types.Signature)
					for i, a := range x.Args {
						at := vc.typeOf(a)
						if at == nil {
							continue
						}
						switch vc.underlying(at).(type) {
						case *types.Pointer:
							pname := ""
							if i < sig.Params().Len() {
								pname = sig.Params().At(i).Name()
							}
							if fcn == nil || contains(fcn.Modifies, pname) || fcn.Inline {
								mark(a)
							}
						case *types.Slice, *types.Map:
							if fcn == nil && vc.w.byObj[callee] != nil {
								mark(a)
							} else if fcn != nil && fcn.Inline {
								mark(a)
							} else if fcn != nil && i < sig.Params().Len() && contains(fcn.Modifies, sig.Params().At(i).Name()) {
								// the callee's contract says it writes through this map/slice
								mark(a)
							}
						}
					}
				} else if id, ok := x.Fun.(*ast.Ident); ok {
					if _, isB := info.ObjectOf(id).(*types.Builtin); isB {
						switch id.Name {
						case "delete", "copy", "clear":
							if len(x.Args) > 0 {
								mark(x.Args[0])
							}
						}
					}
				}
			}
			return true
		})
	}
	var out []types.Object
	for o := range set {
		out = append(out, o)
	}
	sort.Slice(out, func(i, j int) bool { return out[i].Pos() < out[j].Pos() })
	return out
}

func contains(xs []string, s string) bool {
	for _, x := range xs {
		if x == s {
			return true
		}
	}
	return false
}

func recvName(sig *types.Signature) string {
	if sig.Recv() != nil {
		return sig.Recv().Name()
	}
	return ""
}

func (vc *VC) calleeOf(call *ast.CallExpr) *types.Func {
	info := vc.cur().info
	fun := call.Fun
	for {
		switch f := fun.(type) {
		case *ast.ParenExpr:
			fun = f.X
			continue
		case *ast.IndexExpr:
			fun = f.X
			continue
		case *ast.IndexListExpr:
			fun = f.X
			continue
		}
		break
	}
	switch f := fun.(type) {
	case *ast.Ident:
		if fn, ok := info.ObjectOf(f).(*types.Func); ok {
			return fn
		}
	case *ast.SelectorExpr:
		if sel, ok := info.Selections[f]; ok {
			if fn, ok := sel.Obj().(*types.Func); ok {
				return fn
			}
			return nil
		}
		if fn, ok := info.ObjectOf(f.Sel).(*types.Func); ok {
			return fn
		}
	}
	return nil
}

type loopRun struct {
	ord   string
	spec  *LoopSpec
	pos   token.Pos
	ghost map[string]Value // ghost variables visible to invariants ($i, $done, ...)
	entry *State           // state at loop entry: old(x) in invariants
	typeInvs []tiVar
}

func (vc *VC) loopSpec(ord string, fr *frame) *LoopSpec {
	if fr.fc != nil {
		if ls := fr.fc.Loops[ord]; ls != nil {
			return ls
		}
	}
	return &LoopSpec{Ord: ord}
}

// checkInvariants asserts every invariant of the loop in state st.
func (vc *VC) checkInvariants(lr *loopRun, st *State, kind string) {
	if st == nil {
		return
	}
	for _, tv := range lr.typeInvs {
		if c, ok := vc.typeInvTerm(tv, st, lr.pos); ok {
			vc.oblige(kind, "L"+lr.ord+".typeinv."+tv.obj.Name(), lr.pos, st.pc, c, "type invariant of "+tv.obj.Name()+": "+tv.clause.Src)
		}
	}
	for i, inv := range lr.spec.Invariants {
		env := vc.localEnv(st, lr.pos)
		env.oldSt = lr.entry
		for k, v := range lr.ghost {
			env.vars[k] = v
		}
		c := vc.specBool(inv.Expr, env)
		label := inv.Name
		if label == "" {
			label = fmt.Sprintf("L%s.%d", lr.ord, i+1)
		}
		vc.oblige(kind, label, lr.pos, st.pc, c, inv.Src)
	}
}

type tiVar struct {
	obj    types.Object
	clause Clause
}

// typeInvVars: loop-modified variables whose type has a `typeinv`; the
// invariant is maintained by every loop automatically.
func (vc *VC) typeInvVars(mods []types.Object) []tiVar {
	var out []tiVar
	for _, o := range mods {
		n, ok := derefNamed(o.Type())
		if !ok || n.Obj().Pkg() == nil {
			continue
		}
		for _, ti := range vc.w.cs.TypeInvs {
			if ti.Pkg == n.Obj().Pkg().Path() && ti.Type == n.Obj().Name() {
				out = append(out, tiVar{o, ti.Clause})
			}
		}
	}
	return out
}

func (vc *VC) typeInvTerm(tv tiVar, st *State, pos token.Pos) (Term, bool) {
	v, ok := st.vars[tv.obj].(Term)
	if !ok {
		return Term{}, false
	}
	env := vc.localEnv(st, pos)
	env.vars["self"] = v
	return vc.specBool(tv.clause.Expr, env), true
}

func (vc *VC) assumeInvariants(lr *loopRun, st *State) {
	for _, tv := range lr.typeInvs {
		if c, ok := vc.typeInvTerm(tv, st, lr.pos); ok {
			vc.assume(st.pc, c)
		}
	}
	for _, inv := range lr.spec.Invariants {
		env := vc.localEnv(st, lr.pos)
		env.oldSt = lr.entry
		for k, v := range lr.ghost {
			env.vars[k] = v
		}
		vc.assume(st.pc, vc.specBool(inv.Expr, env))
	}
}

// directlyAssigned: variables that appear as the whole left-hand side of an
// assignment (as opposed to being mutated through a pointer / method call).
func (vc *VC) directlyAssigned(nodes ...ast.Node) map[types.Object]bool {
	info := vc.cur().info
	out := map[types.Object]bool{}
	for _, n := range nodes {
		if n == nil {
			continue
		}
		ast.Inspect(n, func(n ast.Node) bool {
			mark := func(e ast.Expr) {
				if id, ok := ast.Unparen(e).(*ast.Ident); ok {
					if o := info.ObjectOf(id); o != nil {
						out[o] = true
					}
				}
			}
			switch x := n.(type) {
			case *ast.AssignStmt:
				for _, l := range x.Lhs {
					mark(l)
				}
			case *ast.IncDecStmt:
				mark(x.X)
			case *ast.RangeStmt:
				if x.Key != nil {
					mark(x.Key)
				}
				if x.Value != nil {
					mark(x.Value)
				}
			case *ast.UnaryExpr:
				if x.Op == token.AND {
					mark(x.X) // address taken: anything may happen
				}
			}
			return true
		})
	}
	return out
}

func (vc *VC) havoc(objs []types.Object, st *State, extra []string, pos token.Pos) {
	for _, o := range objs {
		old, ok := st.vars[o]
		if !ok {
			continue
		}
		ot, isTerm := old.(Term)
		if !isTerm {
			continue
		}
		nv := vc.freshConst(o.Name(), o.Type())
		if ot.Sort == sHState {
			// a variable that holds a hasher (hasher.go) still holds one after the loop
			nv = vc.freshOfSort(o.Name(), sHState, nil)
		}
		// a pointer variable that is only mutated through (never reassigned)
		// keeps pointing to the same object: nil-ness is preserved
		if si := vc.ss.info[ot.Sort]; si != nil && si.Kind == "ptr" && vc.loopDirect != nil && !vc.loopDirect[o] {
			vc.assume(tBool(true), Term{fmt.Sprintf("(= ((_ is ref.%s) %s) ((_ is ref.%s) %s))", ot.Sort, nv.S, ot.Sort, ot.S), SBool, nil})
		}
		// a map that is only written through (m[k] = v, delete) and never
		// reassigned stays the map it was: non-nil if it was non-nil
		if si := vc.ss.info[ot.Sort]; si != nil && si.Kind == "map" && vc.loopDirect != nil && !vc.loopDirect[o] {
			vc.assume(tBool(true), Term{fmt.Sprintf("(= (isnil.%s %s) (isnil.%s %s))", ot.Sort, nv.S, ot.Sort, ot.S), SBool, nil})
		}
		st.vars[o] = nv
	}
	for _, name := range extra {
		if o := vc.lookupLocal(name, pos); o != nil {
			if _, ok := st.vars[o]; ok {
				st.vars[o] = vc.freshConst(o.Name(), o.Type())
			}
		}
	}
}

// decreases: evaluates the measure tuple
func (vc *VC) measure(lr *loopRun, st *State) []Term {
	var out []Term
	for _, d := range lr.spec.Decreases {
		env := vc.localEnv(st, lr.pos)
		for k, v := range lr.ghost {
			env.vars[k] = v
		}
		// a decreases clause may be a comma list written as tuple(a,b)
		if call, ok := d.Expr.(CCall); ok && call.Fn == "tuple" {
			for _, a := range call.Args {
				out = append(out, vc.spec(a, env))
			}
			continue
		}
		out = append(out, vc.spec(d.Expr, env))
	}
	return out
}

func (vc *VC) checkDecreases(lr *loopRun, before []Term, st *State) {
	if len(before) == 0 || st == nil {
		return
	}
	after := vc.measure(lr, st)
	// lexicographic decrease, bounded below by 0
	var alts []Term
	eqPrefix := tBool(true)
	for i := range before {
		lt := Term{fmt.Sprintf("(and (< %s %s) (>= %s 0))", after[i].S, before[i].S, before[i].S), SBool, nil}
		alts = append(alts, tAnd(eqPrefix, lt))
		eqPrefix = tAnd(eqPrefix, tEq(after[i], before[i]))
	}
	vc.oblige("decreases", "L"+lr.ord, lr.pos, st.pc, tOr(alts...), "loop measure decreases")
}

func (vc *VC) execFor(x *ast.ForStmt, st *State, label string) *State {
	fr := vc.cur()
	ord, ofr := vc.staticLoopOrd(x)
	if x.Init != nil {
		st = vc.execStmt(x.Init, st)
		if st == nil {
			return nil
		}
	}
	lr := &loopRun{ord: ord, spec: vc.loopSpec(ord, ofr), pos: x.Pos(), ghost: map[string]Value{}, entry: st.clone()}
	vc.pushLoop(lr)
	defer vc.popLoop()
	mods := vc.modifiedVars(x.Body, x.Post, x.Cond)
	vc.loopDirect = vc.directlyAssigned(x.Body, x.Post)
	lr.typeInvs = vc.typeInvVars(mods)
	vc.checkInvariants(lr, st, "inv-init")
	head := st.clone()
	vc.havoc(mods, head, lr.spec.Modifies, x.Pos())
	vc.assumeInvariants(lr, head)
	var cond Term = tBool(true)
	if x.Cond != nil {
		cond = vc.define("lc", vc.term(vc.evalExpr(x.Cond, head), x.Pos()))
	}
	body := head.clone()
	body.pc = vc.definePC(tAnd(head.pc, cond))
	before := vc.measure(lr, body)
	lc := &loopCtx{label: label}
	fr.loops = append(fr.loops, lc)
	end := vc.execBlock(x.Body.List, body)
	fr.loops = fr.loops[:len(fr.loops)-1]
	// every back edge is checked on its own (no phi terms in the goal)
	for _, back := range append([]*State{end}, lc.continues...) {
		if back == nil || back.pc.S == "false" {
			continue
		}
		if x.Post != nil {
			back = vc.execStmt(x.Post, back)
		}
		vc.checkInvariants(lr, back, "inv-preserve")
		vc.checkDecreases(lr, before, back)
	}
	exit := head.clone()
	exit.pc = vc.definePC(tAnd(head.pc, tNot(cond)))
	return vc.mergeStates(append([]*State{exit}, lc.breaks...))
}

func (vc *VC) execRange(x *ast.RangeStmt, st *State, label string) *State {
	fr := vc.cur()
	ord, ofr := vc.staticLoopOrd(x)
	lr := &loopRun{ord: ord, spec: vc.loopSpec(ord, ofr), pos: x.Pos(), ghost: map[string]Value{}, entry: st.clone()}
	vc.pushLoop(lr)
	defer vc.popLoop()
	xt := vc.typeOf(x.X)
	// the range expression is evaluated once
	var coll Value
	var iterCall *ast.CallExpr
	if call, ok := x.X.(*ast.CallExpr); ok {
		if _, isSig := vc.underlying(xt).(*types.Signature); isSig {
			iterCall = call
		}
	}
	if iterCall == nil {
		coll = vc.evalExpr(x.X, st)
	}
	mods := vc.modifiedVars(x.Body)
	vc.loopDirect = vc.directlyAssigned(x.Body)
	lr.typeInvs = vc.typeInvVars(mods)
	bindKV := func(s *State, k, v Value) {
		if x.Key != nil {
			if id, ok := x.Key.(*ast.Ident); ok && id.Name != "_" {
				if x.Tok == token.DEFINE {
					vc.defineVar(id, k, s)
				} else if k != nil {
					vc.store(x.Key, s, vc.term(k, x.Pos()))
				}
			} else if !ok && k != nil {
				vc.store(x.Key, s, vc.term(k, x.Pos()))
			}
		}
		if x.Value != nil && v != nil {
			if id, ok := x.Value.(*ast.Ident); ok && id.Name != "_" {
				if x.Tok == token.DEFINE {
					vc.defineVar(id, v, s)
				} else {
					vc.store(x.Value, s, vc.term(v, x.Pos()))
				}
			} else if !ok {
				vc.store(x.Value, s, vc.term(v, x.Pos()))
			}
		}
	}
	runBody := func(head *State, bodyPC Term, k, v Value, advance func(*State)) (*State, []*State) {
		body := head.clone()
		body.pc = vc.definePC(tAnd(head.pc, bodyPC))
		bindKV(body, k, v)
		before := vc.measure(lr, body)
		lc := &loopCtx{label: label}
		fr.loops = append(fr.loops, lc)
		end := vc.execBlock(x.Body.List, body)
		fr.loops = fr.loops[:len(fr.loops)-1]
		// every back edge is checked on its own (no phi terms in the goal)
		var back *State
		for _, b := range append([]*State{end}, lc.continues...) {
			if b == nil || b.pc.S == "false" {
				continue
			}
			saved := map[string]Value{}
			for k, v := range lr.ghost {
				saved[k] = v
			}
			advance(b)
			vc.checkInvariants(lr, b, "inv-preserve")
			vc.checkDecreases(lr, before, b)
			for k, v := range saved {
				lr.ghost[k] = v
			}
			back = b
		}
		return back, lc.breaks
	}

	switch u := vc.underlying(xt).(type) {
	case *types.Slice, *types.Basic, *types.Array, *types.Pointer:
		// indexable: hidden index $i from 0 to n
		var n Term
		var elemAt func(i Term) Value
		collT := vc.term(coll, x.Pos())
		switch uu := u.(type) {
		case *types.Slice:
			n = Term{fmt.Sprintf("(len.%s %s)", collT.Sort, collT.S), SInt, nil}
			elemAt = func(i Term) Value {
				return Term{fmt.Sprintf("(select (arr.%s %s) %s)", collT.Sort, collT.S, i.S), vc.ss.sortOf(uu.Elem()), uu.Elem()}
			}
		case *types.Basic:
			if uu.Info()&types.IsString != 0 {
				n = Term{fmt.Sprintf("(gs.len %s)", collT.S), SInt, nil}
				// rune decoding is not modelled: the value is an unknown rune,
				// the index advances by an unknown positive amount (>= 1)
				elemAt = func(i Term) Value { return vc.unknown("rune", types.Typ[types.Rune]) }
			} else if uu.Info()&types.IsInteger != 0 {
				n = collT
				elemAt = nil
			}
		case *types.Array:
			n = tInt(uu.Len())
			elemAt = func(i Term) Value {
				return Term{fmt.Sprintf("(select %s %s)", collT.S, i.S), vc.ss.sortOf(uu.Elem()), uu.Elem()}
			}
		}
		if n.S == "" {
			vc.unsupportedf(x.Pos(), "range over %v", xt)
			return st
		}
		n = vc.define("n", n)
		// `for _, p := range ps { p.mutate() }` with pointer elements: p aliases
		// ps[i]; the mutation is written back into the slice variable
		var aliasObj types.Object
		if sl, ok := u.(*types.Slice); ok {
			if _, isPtr := vc.underlying(sl.Elem()).(*types.Pointer); isPtr && x.Tok == token.DEFINE {
				if vid, ok := x.Value.(*ast.Ident); ok && vid.Name != "_" {
					if cid, ok := ast.Unparen(x.X).(*ast.Ident); ok {
						vobj := vc.cur().info.Defs[vid]
						for _, m := range mods {
							if m == vobj {
								aliasObj = vobj
								if cobj := vc.cur().info.ObjectOf(cid); cobj != nil {
									mods = append(mods, cobj)
								}
							}
						}
					}
				}
			}
		}
		lr.ghost["$i"] = tInt(0)
		lr.ghost["$n"] = n
		vc.checkInvariants(lr, st, "inv-init")
		head := st.clone()
		vc.havoc(mods, head, lr.spec.Modifies, x.Pos())
		idx := vc.freshOfSort("i", SInt, types.Typ[types.Int])
		vc.assume(head.pc, Term{fmt.Sprintf("(and (<= 0 %s) (<= %s %s))", idx.S, idx.S, n.S), SBool, nil})
		lr.ghost["$i"] = idx
		vc.assumeInvariants(lr, head)
		inb := Term{fmt.Sprintf("(< %s %s)", idx.S, n.S), SBool, nil}
		var ev Value
		if elemAt != nil {
			ev = elemAt(idx)
		}
		isStr := false
		if b, ok := u.(*types.Basic); ok && b.Info()&types.IsString != 0 {
			isStr = true
		}
		_, breaks := runBody(head, inb, idx, ev, func(back *State) {
			if aliasObj != nil {
				if nv, ok := back.vars[aliasObj].(Term); ok {
					save := vc.safety
					vc.safety = false
					cur := vc.term(vc.evalExpr(x.X, back), x.Pos())
					upd := Term{fmt.Sprintf("(mk.%s (len.%s %s) (store (arr.%s %s) %s %s) (isnil.%s %s))", cur.Sort, cur.Sort, cur.S, cur.Sort, cur.S, idx.S, nv.S, cur.Sort, cur.S), cur.Sort, cur.T}
					vc.store(x.X, back, vc.define("alias", upd))
					vc.safety = save
				}
			}
			if isStr {
				nx := vc.freshOfSort("i", SInt, types.Typ[types.Int])
				vc.assume(back.pc, Term{fmt.Sprintf("(and (< %s %s) (<= %s %s))", idx.S, nx.S, nx.S, n.S), SBool, nil})
				lr.ghost["$i"] = nx
			} else {
				lr.ghost["$i"] = Term{fmt.Sprintf("(+ %s 1)", idx.S), SInt, nil}
			}
		})
		lr.ghost["$i"] = idx
		exit := head.clone()
		exit.pc = vc.definePC(tAnd(head.pc, tNot(inb)))
		return vc.mergeStates(append([]*State{exit}, breaks...))
	case *types.Map:
		collT := vc.term(coll, x.Pos())
		ks := vc.ss.sortOf(u.Key())
		return vc.rangeSet(x, st, lr, mods, ks, u.Key(),
			func(k Term) Term { return Term{fmt.Sprintf("(select (has.%s %s) %s)", collT.Sort, collT.S, k.S), SBool, nil} },
			func(k Term) Value {
				return Term{fmt.Sprintf("(select (get.%s %s) %s)", collT.Sort, collT.S, k.S), vc.ss.sortOf(u.Elem()), u.Elem()}
			}, runBody)
	case *types.Signature:
		return vc.rangeIter(x, st, lr, mods, iterCall, u, runBody)
	}
	vc.unsupportedf(x.Pos(), "range over %v", xt)
	return st
}

// rangeSet: iteration over an unordered duplicate-free collection with
// membership predicate `member`. Ghost set $done holds the visited keys.
func (vc *VC) rangeSet(x *ast.RangeStmt, st *State, lr *loopRun, mods []types.Object, ks Sort, kt types.Type,
	member func(Term) Term, valueOf func(Term) Value,
	runBody func(head *State, bodyPC Term, k, v Value, advance func(*State)) (*State, []*State)) *State {
	doneSort := Sort(fmt.Sprintf("(Array %s Bool)", ks))
	empty := Term{fmt.Sprintf("((as const %s) false)", doneSort), doneSort, nil}
	lr.ghost["$done"] = empty
	vc.checkInvariants(lr, st, "inv-init")
	head := st.clone()
	vc.havoc(mods, head, lr.spec.Modifies, x.Pos())
	done := vc.freshOfSort("done", doneSort, nil)
	// visited keys are members
	vc.assume(head.pc, Term{fmt.Sprintf("(forall ((k! %s)) (! (=> (select %s k!) %s) :pattern ((select %s k!))))", ks, done.S, member(Term{"k!", ks, kt}).S, done.S), SBool, nil})
	lr.ghost["$done"] = done
	vc.assumeInvariants(lr, head)
	k := vc.freshOfSort("k", ks, kt)
	if f := vc.rangeFacts(k, kt, 0); f.S != "true" {
		vc.assume(tBool(true), f)
	}
	pick := tAnd(member(k), tNot(Term{fmt.Sprintf("(select %s %s)", done.S, k.S), SBool, nil}))
	var v Value
	if valueOf != nil {
		v = valueOf(k)
	}
	_, breaks := runBody(head, pick, k, v, func(back *State) {
		lr.ghost["$done"] = Term{fmt.Sprintf("(store %s %s true)", done.S, k.S), doneSort, nil}
	})
	lr.ghost["$done"] = done
	exit := head.clone()
	memK := member(Term{"k!", ks, kt}).S
	memPat := ""
	if (strings.HasPrefix(memK, "(select ") || strings.HasPrefix(memK, "(sp.")) && strings.Contains(memK, "k!") {
		// the membership atom is a trigger too: a member named in the goal is known to have been visited
		memPat = fmt.Sprintf(" :pattern (%s)", memK)
	}
	allDone := Term{fmt.Sprintf("(forall ((k! %s)) (! (=> %s (select %s k!)) :pattern ((select %s k!))%s))", ks, memK, done.S, done.S, memPat), SBool, nil}
	// the loop exits normally exactly when every member has been visited
	ex := exit.clone()
	exitFlag := vc.freshOfSort("exit", SBool, nil)
	vc.assumes = append(vc.assumes, fmt.Sprintf("(assert (= %s %s))", exitFlag.S, allDone.S))
	ex.pc = vc.definePC(tAnd(head.pc, exitFlag))
	return vc.mergeStates(append([]*State{ex}, breaks...))
}

// rangeIter: range over an iterator function obtained from a method call such
// as s.All(). The iterator is described by a `yields` spec function
// iter.<Type>.<Method>(recv, k[, v]) bool; without one the elements are
// unconstrained (sound, imprecise).
func (vc *VC) rangeIter(x *ast.RangeStmt, st *State, lr *loopRun, mods []types.Object, call *ast.CallExpr, sig *types.Signature,
	runBody func(head *State, bodyPC Term, k, v Value, advance func(*State)) (*State, []*State)) *State {
	// element types from the yield function signature
	if sig.Params().Len() != 1 {
		vc.unsupportedf(x.Pos(), "range over function with %d params", sig.Params().Len())
		return st
	}
	ysig, ok := vc.underlying(sig.Params().At(0).Type()).(*types.Signature)
	if !ok || ysig.Params().Len() == 0 || ysig.Params().Len() > 2 {
		vc.unsupportedf(x.Pos(), "range over function: unsupported yield signature")
		return st
	}
	kt := ysig.Params().At(0).Type()
	ks := vc.ss.sortOf(kt)
	var vt types.Type
	if ysig.Params().Len() == 2 {
		vt = ysig.Params().At(1).Type()
	}
	var recv Term
	specName := ""
	if call != nil {
		if callee := vc.calleeOf(call); callee != nil {
			if se, ok := call.Fun.(*ast.SelectorExpr); ok {
				if sel, ok := vc.cur().info.Selections[se]; ok && sel.Kind() == types.MethodVal {
					recv = vc.term(vc.evalExpr(se.X, st), x.Pos())
					rt := sel.Recv()
					if p, ok := types.Unalias(rt).(*types.Pointer); ok {
						rt = p.Elem()
					}
					if n, ok := types.Unalias(rt).(*types.Named); ok {
						specName = "iter_" + n.Obj().Name() + "_" + callee.Name()
					}
				}
			}
		}
	}
	if call != nil && specName == "" {
		// evaluate for effects/obligations
		vc.evalExpr(call, st)
	}
	sf := vc.w.specByName[specName]
	if sf == nil {
		// unconstrained elements; no completeness information
		vc.notes = append(vc.notes, fmt.Sprintf("range over %s: no iterator spec (%s), elements unconstrained", vc.src(x.X), specName))
		vc.checkInvariants(lr, st, "inv-init")
		head := st.clone()
		vc.havoc(mods, head, lr.spec.Modifies, x.Pos())
		vc.assumeInvariants(lr, head)
		k := vc.freshConst("k", kt)
		var v Value
		if vt != nil {
			v = vc.freshConst("v", vt)
		}
		_, breaks := runBody(head, tBool(true), k, v, func(*State) {})
		return vc.mergeStates(append([]*State{head.clone()}, breaks...))
	}
	// deref pointer receiver for the spec function
	recvArg := recv
	if si := vc.ss.info[recv.Sort]; si != nil && si.Kind == "ptr" && len(sf.Params) > 0 {
		if pt, err := vc.w.resolveTypeText(sf.Pkg, sf.Params[0].Type); err == nil {
			if vc.ss.sortOf(pt) != recv.Sort {
				recvArg = Term{fmt.Sprintf("(val.%s %s)", recv.Sort, recv.S), vc.ss.sortOf(si.Elem), si.Elem}
			}
		}
	}
	// the value yielded with key k: spec function <iter>_val if declared,
	// else an internal uninterpreted function
	valTerm := func(k Term) Term {
		if vsf := vc.w.specByName[specName+"_val"]; vsf != nil {
			return vc.applySpec(vsf, []Term{recvArg, k})
		}
		vfn := vc.iterValueFn(specName, recvArg.Sort, ks, vc.ss.sortOf(vt))
		return Term{fmt.Sprintf("(%s %s %s)", vfn, recvArg.S, k.S), vc.ss.sortOf(vt), vt}
	}
	member := func(k Term) Term {
		if vt != nil {
			return vc.applySpec(sf, []Term{recvArg, k, valTerm(k)})
		}
		return vc.applySpec(sf, []Term{recvArg, k})
	}
	var valueOf func(Term) Value
	if vt != nil {
		valueOf = func(k Term) Value { return valTerm(k) }
	}
	return vc.rangeSet(x, st, lr, mods, ks, kt, member, valueOf, runBody)
}

func (vc *VC) iterValueFn(specName string, rs, ks, vs Sort) string {
	fn := "val." + specName
	vc.ss.declare(&sortInfo{Name: Sort("fn$" + fn), Kind: "const", Decl: fmt.Sprintf("(declare-fun %s (%s %s) %s)", fn, rs, ks, vs)})
	return fn
}

// pushLoop: a loop nested in another sees the ghost variables of the
// enclosing loop ($i, $done of the outer iteration in progress) unless it
// defines its own.
func (vc *VC) pushLoop(lr *loopRun) {
	if n := len(vc.loopStack); n > 0 {
		for k, v := range vc.loopStack[n-1].ghost {
			lr.ghost[k] = v
		}
	}
	vc.loopStack = append(vc.loopStack, lr)
}

func (vc *VC) popLoop() { vc.loopStack = vc.loopStack[:len(vc.loopStack)-1] }
