package main

import (
	"encoding/json"
	"flag"
	"fmt"
	"os"
	"path/filepath"
	"runtime"
	"sort"
	"strings"
	"time"
)

type options struct {
	repo, verif, prop, tier, fn string
	verbose                      bool
	timeoutMs                    int
	sweepPkgs                    string
	dumpOnly                     bool
	base, outBase                string
}

func main() {
	var o options
	flag.StringVar(&o.repo, "repo", "/repo", "repository working tree")
	flag.StringVar(&o.verif, "verif", "/verif", "verification directory")
	flag.StringVar(&o.prop, "prop", "", "property id")
	flag.StringVar(&o.tier, "tier", "quick", "quick|thorough")
	flag.StringVar(&o.fn, "func", "", "only functions whose key contains this text")
	flag.BoolVar(&o.verbose, "v", false, "verbose")
	flag.IntVar(&o.timeoutMs, "timeout", 0, "per-solver timeout in ms (0: by tier)")
	flag.BoolVar(&o.dumpOnly, "dump", false, "generate obligations and queries, do not solve")
	flag.Parse()
	if o.timeoutMs == 0 {
		o.timeoutMs = 20000
		if o.tier == "thorough" {
			o.timeoutMs = 120000
		}
	}
	os.Exit(run(o))
}

func run(o options) int {
	start := time.Now()
	w, err := loadWorld(o.repo, filepath.Join(o.verif, "contracts"))
	if err != nil {
		fmt.Fprintln(os.Stderr, "govc: load:", err)
		return failLoad(o, err)
	}
	loadT := time.Since(start)
	// select functions
	var results []*FuncResult
	var missing []string
	for _, key := range w.cs.Order {
		fc := w.cs.Funcs[key]
		if fc.NoBody || fc.Trusted {
			continue
		}
		if o.prop != "" && !contains(fc.Props, o.prop) {
			continue
		}
		if o.fn != "" && !strings.Contains(key, o.fn) {
			continue
		}
		fi := w.funcs[key]
		if fi == nil {
			if strings.HasPrefix(key, modPath) {
				// interface methods have contracts but no body
				if isIfaceMethodKey(w, key) {
					continue
				}
				missing = append(missing, key)
			}
			continue
		}
		if fi.Decl.Body == nil {
			continue
		}
		if o.verbose {
			fmt.Fprintf(os.Stderr, "govc: generating %s\n", key)
		}
		results = append(results, verifyFunc(w, fi, fc, false))
	}
	for _, lm := range w.cs.Lemmas {
		if lm.Prop != o.prop || (o.fn != "" && !strings.Contains(lm.Name, o.fn)) {
			continue
		}
		results = append(results, verifyLemma(w, lm))
	}
	genT := time.Since(start) - loadT
	// A run against /repo itself owns /verif/evidence, /verif/replays and
	// /verif/out; a run against a scratch copy (--repo DIR, used by the seeded
	// changes and the self-test) or restricted to some functions writes under
	// /verif/out/scratch/<pid> and never touches the evidence of /repo.
	o.base = o.verif
	o.outBase = filepath.Join(o.verif, "out")
	if filepath.Clean(o.repo) != "/repo" || o.fn != "" {
		o.base = filepath.Join(o.verif, "out", "scratch", fmt.Sprint(os.Getpid()))
		o.outBase = o.base
	}
	outDir := filepath.Join(o.outBase, "smt", o.prop)
	os.RemoveAll(outDir)
	os.MkdirAll(outDir, 0o755)
	if o.dumpOnly {
		for _, r := range results {
			for _, ob := range r.Obls {
				q := r.vc.buildQuery(ob, true)
				os.WriteFile(filepath.Join(outDir, sanitize(ob.Name)+".smt2"), []byte(q), 0o644)
			}
			fmt.Printf("%s: %d obligations, unsupported=%v\n", r.Key, len(r.Obls), r.Unsupported)
		}
		return 0
	}
	// obligations with a recorded finding are expected to stay open: no long
	// second pass for them (they are decided by the re-proof outside their region)
	expectedOpen = map[string]bool{}
	for _, k := range loadKnownFindings(filepath.Join(o.verif, "KNOWN_FINDINGS.txt")).items {
		if k.Property == o.prop {
			expectedOpen[k.Obligation] = true
		}
	}
	dischargeAll(results, outDir, o.timeoutMs, o.tier == "thorough", runtime.NumCPU())
	// frame obligations (decided syntactically by the frame checker)
	if o.fn == "" {
		if frs := w.checkFrames(o.prop); len(frs) > 0 {
			fr := &FuncResult{Key: "frame-checker", vc: newVC(w, nil, nil)}
			for _, r := range frs {
				kind := "frame"
				ob := &Obligation{Name: strings.TrimPrefix(r.Func, modPath+"/") + "#" + kind, Kind: kind, Func: r.Func, Expect: "unsat",
					Desc:   fmt.Sprintf("writes only memory it allocated itself, transitively over %d functions", r.Reached),
					Solver: "frame-checker", Verdict: "unsat", PC: tBool(true), Cond: tBool(true)}
				if !r.OK {
					ob.Verdict = "frame-violation"
					ob.Model = strings.Join(r.Problems, "\n")
				}
				fr.Obls = append(fr.Obls, ob)
			}
			results = append(results, fr)
		}
	}
	rc := report(o, w, results, missing, start, loadT, genT)
	if o.base != o.verif && os.Getenv("GOVC_KEEP") == "" {
		// scratch runs keep their report and replay files, not their queries
		os.RemoveAll(filepath.Join(o.outBase, "smt"))
	}
	return rc
}

func isIfaceMethodKey(w *World, key string) bool {
	// pkg.Type.Method where Type is an interface
	i := strings.LastIndex(key, ".")
	if i < 0 {
		return false
	}
	t := w.lookupType(key[:i])
	if t == nil {
		return false
	}
	_, ok := t.Underlying().(interface{ NumMethods() int })
	return ok
}

func failLoad(o options, err error) int {
	// A tree that does not load (does not type-check with tag verif) cannot be
	// verified; this is reported as a failed check, not a violation.
	fmt.Printf("ERROR property=%s cannot load repository: %v\n", o.prop, err)
	return 2
}

type evidence struct {
	PropertyID  string                 `json:"property_id"`
	Tier        string                 `json:"tier"`
	Seed        int                    `json:"seed"`
	Level       string                 `json:"level"`
	Coverage    map[string]interface{} `json:"coverage"`
	Assumptions []string               `json:"assumptions"`
	WallS       float64                `json:"wall_s"`
	Violations  int                    `json:"violations"`
}

func report(o options, w *World, results []*FuncResult, missing []string, start time.Time, loadT, genT time.Duration) int {
	kf := loadKnownFindings(filepath.Join(o.verif, "KNOWN_FINDINGS.txt"))
	var total, discharged, vacOK int
	var failed []*Obligation
	var unsupported []string
	var funcs []string
	var samples []map[string]interface{}
	var solverMs int64
	bySolver := map[string]int{}
	allNames := map[string]bool{}
	byKind := map[string]int{}
	inlined := map[string]bool{}
	havoced := map[string]bool{}
	byContract := map[string]bool{}
	axioms := map[string]bool{}
	var notes []string
	for _, r := range results {
		funcs = append(funcs, strings.TrimPrefix(r.Key, modPath+"/"))
		for _, u := range r.Unsupported {
			unsupported = append(unsupported, strings.TrimPrefix(r.Key, modPath+"/")+": "+u)
		}
		notes = append(notes, r.Notes...)
		for _, k := range r.Inlined {
			inlined[strings.TrimPrefix(k, modPath+"/")] = true
		}
		for _, k := range r.Havoced {
			havoced[strings.TrimPrefix(k, modPath+"/")] = true
		}
		for _, k := range r.ByContract {
			byContract[strings.TrimPrefix(k, modPath+"/")] = true
		}
		for _, a := range r.vc.axiomsUsed {
			axioms[a] = true
		}
		for _, ob := range r.Obls {
			total++
			allNames[ob.Name] = true
			solverMs += ob.Millis
			if ob.Millis > 3000 {
				fmt.Fprintf(os.Stderr, "govc: slow obligation %s: %s %dms\n", ob.Name, ob.Solver, ob.Millis)
			}
			byKind[ob.Kind]++
			ok := false
			if ob.Expect == "sat" {
				ok = ob.Verdict != "unsat" && ob.Verdict != "error"
				if ok {
					vacOK++
				}
			} else {
				ok = ob.Verdict == "unsat"
			}
			if ok {
				discharged++
				s := ob.Solver
				if i := strings.Index(s, " "); i > 0 {
					s = s[:i]
				}
				if ob.Expect == "sat" {
					// vacuity guard: passes when the solver does not refute it
					if i := strings.Index(s, "="); i > 0 {
						s = s[:i]
					}
					s += " (vacuity guard: not refuted)"
				} else if strings.Contains(ob.Solver, "kind-pruned") {
					s += " (kind-pruned query)"
				}
				bySolver[s]++
				if len(samples) < 6 && ob.Solver != "syntactic" && ob.Expect == "unsat" && (len(samples) == 0 || samples[len(samples)-1]["function"] != ob.Func) {
					sz := 0
					if fi, err := os.Stat(ob.Query); err == nil {
						sz = int(fi.Size())
					}
					samples = append(samples, map[string]interface{}{"obligation": ob.Name, "function": ob.Func, "kind": ob.Kind, "at": ob.Pos, "statement": ob.Desc,
						"verdict": ob.Verdict, "solver": ob.Solver, "ms": ob.Millis, "smt_bytes": sz})
				}
			} else {
				failed = append(failed, ob)
			}
		}
	}
	exit := 0
	violations := 0
	replayDir := filepath.Join(o.base, "replays")
	os.MkdirAll(replayDir, 0o755)
	var knownLines []string
	nKnown := 0
	for _, m := range missing {
		// a function under contract that no longer exists: the proof is gone
		violations++
		path := filepath.Join(replayDir, sanitize(o.prop+"_missing_"+m)+".json")
		writeJSON(path, map[string]interface{}{"property": o.prop, "obligation": m + "#exists", "reason": "function under contract not found in the current tree", "failing_input": nil})
		fmt.Printf("VIOLATION property=%s replay=%s no-failing-input-found\n", o.prop, path)
		exit = 1
	}
	for _, u := range unsupported {
		fmt.Fprintf(os.Stderr, "govc: outside the subset: %s\n", u)
	}
	if len(unsupported) > 0 {
		// a function outside the verified subset cannot be claimed as proved
		violations++
		path := filepath.Join(replayDir, sanitize(o.prop+"_unsupported")+".json")
		writeJSON(path, map[string]interface{}{"property": o.prop, "obligation": "subset", "reason": "function body uses constructs outside the verified subset; the obligations cannot be generated soundly", "details": unsupported})
		fmt.Printf("VIOLATION property=%s replay=%s no-failing-input-found\n", o.prop, path)
		exit = 1
	}
	for _, ob := range failed {
		if k := kf.match(o.prop, ob.Name); k != nil && outsideRegion(ob, k, filepath.Join(o.outBase, "smt", o.prop), o.timeoutMs) {
			knownLines = append(knownLines, fmt.Sprintf("KNOWN-FINDING: property=%s obligation=%s input=%s %s", o.prop, ob.Name, k.Input, k.What))
			k.seen = true
			nKnown++
			// the obligation is discharged on the complement of the recorded region
			discharged++
			bySolver["restricted-to-complement-of-known-finding"]++
			continue
		}
		violations++
		path := filepath.Join(replayDir, sanitize(o.prop+"_"+ob.Name)+".json")
		rep := map[string]interface{}{"property": o.prop, "obligation": ob.Name, "kind": ob.Kind, "at": ob.Pos, "statement": ob.Desc,
			"verdict": ob.Verdict, "solvers": ob.Solver, "query": ob.Query, "solver_output": firstLines(ob.Model, 200)}
		suffix := " no-failing-input-found"
		if ob.Verdict == "sat" && ob.Expect == "unsat" {
			if rr := tryReplay(o, w, ob, rep); rr {
				suffix = ""
			}
		}
		if ob.Expect == "sat" {
			rep["reason"] = "vacuity guard failed: the assumptions of this function are contradictory (everything would verify)"
		}
		writeJSON(path, rep)
		fmt.Printf("VIOLATION property=%s replay=%s%s\n", o.prop, path, suffix)
		fmt.Fprintf(os.Stderr, "govc: FAILED %s [%s] %s at %s: %s\n", ob.Name, ob.Verdict, ob.Solver, ob.Pos, ob.Desc)
		exit = 1
	}
	for _, l := range knownLines {
		fmt.Println(l)
	}
	if total == 0 {
		fmt.Printf("ERROR property=%s no obligations generated\n", o.prop)
		exit = 2
	}
	// hygiene: a recorded finding whose obligation is not generated any more
	// (renamed or lost contract) would go silent; say so
	if o.fn == "" {
		for _, k := range kf.items {
			if k.Property != o.prop || k.seen {
				continue
			}
			if !allNames[k.Obligation] {
				fmt.Fprintf(os.Stderr, "govc: WARNING: KNOWN_FINDINGS.txt lists obligation %s for %s, which is not generated on this tree (stale entry or lost contract)\n", k.Obligation, o.prop)
				notes = append(notes, "stale known finding: "+k.Obligation)
			} else {
				fmt.Fprintf(os.Stderr, "govc: note: the recorded finding on %s does not reproduce on this tree (the obligation is discharged)\n", k.Obligation)
				notes = append(notes, "recorded finding no longer reproduces: "+k.Obligation)
			}
		}
	}
	// lock file: the number of obligations must not shrink
	if lockN := readLock(filepath.Join(o.verif, "obligations.lock"), o.prop); lockN > 0 && total < lockN && o.fn == "" {
		path := filepath.Join(replayDir, sanitize(o.prop+"_obligation_count")+".json")
		writeJSON(path, map[string]interface{}{"property": o.prop, "obligation": "obligation-count", "expected_at_least": lockN, "generated": total,
			"reason": "fewer obligations than on the pinned tree: code under contract was removed or restructured so that proof obligations disappeared"})
		fmt.Printf("VIOLATION property=%s replay=%s no-failing-input-found\n", o.prop, path)
		violations++
		exit = 1
	}
	wall := time.Since(start).Seconds()
	sort.Strings(funcs)
	ev := evidence{PropertyID: o.prop, Tier: o.tier, Seed: 0, Level: "proof", WallS: wall, Violations: violations}
	var failedNames []string
	for _, ob := range failed {
		failedNames = append(failedNames, ob.Name+" ["+ob.Verdict+"]")
	}
	ev.Coverage = map[string]interface{}{
		"obligations":              total,
		"discharged":               discharged,
		"checker_cmd":              fmt.Sprintf("/verif/bin/govc -repo %s -prop %s -tier %s", o.repo, o.prop, o.tier),
		"trusted_base":             trustedBase(),
		"functions_under_contract": funcs,
		"obligations_by_kind":      byKind,
		"discharged_by_backend":    bySolver,
		"vacuity_guards_passed":    vacOK,
		"solver_ms_total":          solverMs,
		"load_s":                   loadT.Seconds(),
		"vcgen_s":                  genT.Seconds(),
		"samples":                  samples,
		"not_discharged":           failedNames,
		"callees_inlined":          keys(inlined),
		"callees_by_contract":      keys(byContract),
		"callees_havoced":          keys(havoced),
		"axioms_used":              keys(axioms),
		"known_findings":           knownLines,
		"notes":                    notes,
	}
	ev.Assumptions = assumptionsFor(o.prop, w)
	if extra := loadExtraEvidence(o.verif, o.prop); extra != nil {
		for k, v := range extra {
			ev.Coverage[k] = v
		}
	}
	os.MkdirAll(filepath.Join(o.base, "evidence"), 0o755)
	writeJSON(filepath.Join(o.base, "evidence", o.prop+".json"), ev)
	fmt.Printf("govc: property=%s functions=%d obligations=%d discharged=%d failed=%d known=%d wall=%.1fs (load %.1fs, vcgen %.1fs, solver %.1fs cpu)\n",
		o.prop, len(funcs), total, discharged, len(failed)-nKnown, nKnown, wall, loadT.Seconds(), genT.Seconds(), float64(solverMs)/1000)
	return exit
}

func keys(m map[string]bool) []string {
	var out []string
	for k := range m {
		out = append(out, k)
	}
	sort.Strings(out)
	return out
}

func writeJSON(path string, v interface{}) {
	b, _ := json.MarshalIndent(v, "", " ")
	os.WriteFile(path, append(b, '\n'), 0o644)
}

func trustedBase() []string {
	return []string{
		"go/parser + go/types (golang.org/x/tools/go/packages v0.29.0) for the typed AST of /repo's working tree",
		"govc translation Go AST -> verification conditions (this engine; exercised by the must-fail corpus in /verif/selftest)",
		"SMT solvers z3 5.1.0, z3 4.8.12, cvc5 1.0.3 (an obligation counts only on `unsat`)",
		"assumed contracts of standard-library callees in /verif/contracts/*.spec",
		"value semantics for slices/maps and unique ownership of pointer targets inside one function (no aliasing between parameters)",
		"closed world for repository interfaces (types.Value, eval.Evaler, ast.IsNode: implementers are those in /repo)",
	}
}

func assumptionsFor(prop string, w *World) []string {
	out := []string{
		"int is 64 bit; machine integer arithmetic is modelled exactly as wrap-around on mathematical integers",
		"error message texts and fmt/strconv formatting results are abstracted (only nil-ness, %w chains and functional dependence are kept)",
		"slice capacity and allocation identity are not modelled; slices are values in the logic - the side condition that makes this sound inside one function body (no two slice variables copied from one another are in use while one is appended to) is checked syntactically for every function under contract, aliasing across calls is not",
		"map iteration order is replaced by an arbitrary (demonic) duplicate-free enumeration",
		"package-level variables that are never assigned outside their declaration are constants",
		"termination is proved only for loops with a `decreases` clause",
		"interface methods declared `pure` in contracts are deterministic functions of receiver and arguments",
		"an opaque callee (neither inlined nor under contract) may change the pointees of pointer arguments and the contents of map/slice arguments unless the frame checker knows it not to; nothing else of the caller's state",
		"slices.SortFunc orders its argument by a comparator proved to be a strict weak ordering (the sort algorithm itself is trusted); maps.Copy, maps.Clone, slices.Collect(maps.Keys/Values) have exact models",
		"hash/fnv hashers are abstract states: which data enters a hash, and in which order, is modelled; the mixing function is uninterpreted",
	}
	// trusted / assumed contracts actually present
	var trusted []string
	for _, k := range w.cs.Order {
		fc := w.cs.Funcs[k]
		if (fc.NoBody || fc.Trusted || fc.Pkg == "") && (len(fc.Ensures) > 0 || fc.Pure) {
			trusted = append(trusted, k)
		}
	}
	sort.Strings(trusted)
	// contracts that no property check proves (no `props` line): callers use
	// them, nothing discharges them - they are assumptions too
	var unproved []string
	for _, k := range w.cs.Order {
		fc := w.cs.Funcs[k]
		if !(fc.NoBody || fc.Trusted || fc.Pkg == "") && len(fc.Props) == 0 && !fc.Inline && (len(fc.Ensures) > 0 || fc.Pure) && !isIfaceMethodKey(w, k) {
			unproved = append(unproved, strings.TrimPrefix(k, modPath+"/"))
		}
	}
	sort.Strings(unproved)
	if len(unproved) > 0 {
		out = append(out, "contracts under no property (used at call sites, proved by no check): "+strings.Join(unproved, ", "))
	}
	if len(trusted) > 0 {
		out = append(out, "assumed (unverified) contracts: "+strings.Join(trusted, ", "))
	}
	return out
}

func loadExtraEvidence(verif, prop string) map[string]interface{} {
	b, err := os.ReadFile(filepath.Join(verif, "out", "extra_"+prop+".json"))
	if err != nil {
		return nil
	}
	var m map[string]interface{}
	if json.Unmarshal(b, &m) != nil {
		return nil
	}
	return m
}

// ---- known findings

type knownFinding struct {
	Property, Obligation, Region, Input, What string
	seen                                      bool
}
type knownFindings struct{ items []*knownFinding }

// A line of KNOWN_FINDINGS.txt:
//   finding: property=<id> obligation=<name> region=<contract expr over the inputs> input=<failing call> what=<text>
//   fixed: property=<id> <commit> <what failed>          (documentation only; suppresses nothing)
func loadKnownFindings(path string) *knownFindings {
	kf := &knownFindings{}
	b, err := os.ReadFile(path)
	if err != nil {
		return kf
	}
	keys := []string{"property=", "obligation=", "region=", "input=", "what="}
	for _, ln := range strings.Split(string(b), "\n") {
		ln = strings.TrimSpace(ln)
		if !strings.HasPrefix(ln, "finding:") {
			continue
		}
		rest := strings.TrimSpace(strings.TrimPrefix(ln, "finding:"))
		f := &knownFinding{}
		for i, k := range keys {
			j := strings.Index(rest, k)
			if j < 0 {
				continue
			}
			v := rest[j+len(k):]
			end := len(v)
			for _, k2 := range keys[i+1:] {
				if e := strings.Index(v, " "+k2); e >= 0 && e < end {
					end = e
				}
			}
			v = strings.TrimSpace(v[:end])
			switch k {
			case "property=":
				f.Property = v
			case "obligation=":
				f.Obligation = v
			case "region=":
				f.Region = v
			case "input=":
				f.Input = v
			case "what=":
				f.What = v
			}
		}
		kf.items = append(kf.items, f)
	}
	return kf
}

func (kf *knownFindings) match(prop, obl string) *knownFinding {
	for _, f := range kf.items {
		if f.Property == prop && f.Obligation == obl {
			return f
		}
	}
	return nil
}

// outsideRegion re-proves a failed obligation restricted to the complement of
// the recorded failing region; true means everything outside the known
// finding is still proved.
func outsideRegion(ob *Obligation, k *knownFinding, dir string, timeoutMs int) bool {
	if k.Region == "" || ob.vc == nil {
		return false
	}
	e, err := parseContractExpr(k.Region)
	if err != nil {
		return false
	}
	vc := ob.vc
	pkg := ""
	if vc.fi != nil {
		pkg = vc.fi.Pkg.PkgPath
	} else if vc.fc != nil {
		pkg = vc.fc.Pkg // a lemma: the region speaks about its (skolemised) variables
	}
	env := &SpecEnv{vc: vc, vars: map[string]Value{}, old: map[string]Value{}, pkg: pkg}
	for n, v := range vc.entry {
		env.vars[n], env.old[n] = v, v
	}
	if vc.fi != nil {
		env.vars[fiRecvName(vc.fi)] = vc.entry["self"]
	}
	nUns := len(vc.unsupported)
	region := vc.specBool(e, env)
	if len(vc.unsupported) > nUns {
		vc.unsupported = vc.unsupported[:nUns]
		return false
	}
	q := vc.buildQuery(ob, false)
	q = strings.Replace(q, "(check-sat)", fmt.Sprintf("(assert (not %s))\n(check-sat)", region.S), 1)
	save := *ob
	ob.Name += "~outside-known-region"
	discharge(ob, q, dir, timeoutMs, false)
	if ob.Verdict == "unknown" || ob.Verdict == "timeout" {
		// undecided is not an answer (loaded machine): once more with four times the limit
		ob.Model = ""
		discharge(ob, q, dir, timeoutMs*4, false)
	}
	ok := ob.Verdict == "unsat"
	*ob = save
	return ok
}

func readLock(path, prop string) int {
	b, err := os.ReadFile(path)
	if err != nil {
		return 0
	}
	for _, ln := range strings.Split(string(b), "\n") {
		var p string
		var n int
		if _, err := fmt.Sscanf(ln, "%s %d", &p, &n); err == nil && p == prop {
			return n
		}
	}
	return 0
}
