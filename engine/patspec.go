package main

// Spec functions used as quantifier patterns.
//
// A spec function is normally an SMT macro (define-fun). A macro whose body
// contains a quantifier cannot occur in a :pattern (the expansion is not a
// term). Spec functions that (a) have a quantifier in their body and (b) are
// used as a pattern somewhere in the contracts are therefore declared as
// uninterpreted functions with a definitional axiom triggered on their
// application.

// patternSpecs: names of spec functions called at the top of some pattern.
func (cs *ContractSet) patternSpecs() map[string]bool {
	out := map[string]bool{}
	var walk func(e CExpr)
	walk = func(e CExpr) {
		if e == nil {
			return
		}
		switch x := e.(type) {
		case CCall:
			if x.Recv != nil {
				walk(x.Recv)
			}
			for _, a := range x.Args {
				walk(a)
			}
		case CSel:
			walk(x.X)
		case CIndex:
			walk(x.X)
			walk(x.I)
		case CSlice:
			walk(x.X)
			walk(x.Lo)
			walk(x.Hi)
		case CUnary:
			walk(x.X)
		case CBinary:
			walk(x.X)
			walk(x.Y)
		case CCond:
			walk(x.C)
			walk(x.A)
			walk(x.B)
		case CQuant:
			for _, p := range x.Pats {
				for _, pe := range p {
					if c, ok := pe.(CCall); ok && c.Recv == nil {
						out[c.Fn] = true
					}
					walk(pe)
				}
			}
			walk(x.Body)
		case COld:
			walk(x.X)
		case CLet:
			walk(x.Val)
			walk(x.Body)
		case CIs:
			walk(x.X)
		case CAssert:
			walk(x.X)
		}
	}
	for _, fc := range cs.Funcs {
		for _, c := range fc.Requires {
			walk(c.Expr)
		}
		for _, c := range fc.Ensures {
			walk(c.Expr)
		}
		for _, c := range fc.Measure {
			walk(c.Expr)
		}
		for _, ls := range fc.Loops {
			for _, c := range ls.Invariants {
				walk(c.Expr)
			}
		}
		for _, lst := range [][]AnchoredClause{fc.Asserts, fc.Assumes, fc.Ghosts} {
			for _, a := range lst {
				walk(a.Clause.Expr)
			}
		}
	}
	for _, lm := range cs.Lemmas {
		walk(lm.Expr)
	}
	for _, ax := range cs.Axioms {
		walk(ax.Expr)
	}
	for _, sf := range cs.Specs {
		walk(sf.Body)
	}
	for _, ti := range cs.TypeInvs {
		walk(ti.Clause.Expr)
	}
	return out
}

// hasQuant: does the expression contain a quantifier?
func hasQuant(e CExpr) bool {
	found := false
	var walk func(e CExpr)
	walk = func(e CExpr) {
		if e == nil || found {
			return
		}
		switch x := e.(type) {
		case CQuant:
			found = true
		case CCall:
			if x.Recv != nil {
				walk(x.Recv)
			}
			for _, a := range x.Args {
				walk(a)
			}
		case CSel:
			walk(x.X)
		case CIndex:
			walk(x.X)
			walk(x.I)
		case CUnary:
			walk(x.X)
		case CBinary:
			walk(x.X)
			walk(x.Y)
		case CCond:
			walk(x.C)
			walk(x.A)
			walk(x.B)
		case COld:
			walk(x.X)
		case CLet:
			walk(x.Val)
			walk(x.Body)
		case CIs:
			walk(x.X)
		case CAssert:
			walk(x.X)
		}
	}
	walk(e)
	return found
}

func (w *World) patSpecs() map[string]bool {
	w.patOnce.Do(func() { w.patSpecNames = w.cs.patternSpecs() })
	return w.patSpecNames
}
