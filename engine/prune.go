package main

// Pruning of assumptions by path condition: an assumption `(=> G F)` whose
// guard G contradicts the path condition of the goal (it belongs to another
// arm of a switch or to the other branch of an if) is left out of the query.
// Leaving out assumptions can only weaken the hypotheses.

import (
	"strings"
	"sync"
)

type pcDefTable struct {
	defs map[string]string          // pc!N / c!N ... -> defining term text
	memo map[string]map[string]bool // symbol -> literal set
	mu   sync.RWMutex
}

// pcDefs collects the definitions `(assert (= sym term))` of Boolean helper
// symbols among the first n assumptions.
func (vc *VC) pcDefs(n int) *pcDefTable {
	vc.symMu.Lock()
	defer vc.symMu.Unlock()
	if vc.pcTab == nil {
		vc.pcTab = &pcDefTable{defs: map[string]string{}, memo: map[string]map[string]bool{}}
	}
	if vc.pcScanned >= n || vc.pcScanned >= len(vc.assumes) {
		return vc.pcTab
	}
	vc.pcTab.mu.Lock()
	defer vc.pcTab.mu.Unlock()
	for ; vc.pcScanned < n && vc.pcScanned < len(vc.assumes); vc.pcScanned++ {
		a := vc.assumes[vc.pcScanned]
		const pre = "(assert (= "
		if !strings.HasPrefix(a, pre) {
			continue
		}
		rest := a[len(pre):]
		sp := strings.IndexByte(rest, ' ')
		if sp <= 0 {
			continue
		}
		sym := rest[:sp]
		if !(strings.HasPrefix(sym, "pc!") || strings.HasPrefix(sym, "c!") || strings.HasPrefix(sym, "case!") || strings.HasPrefix(sym, "tcase!") || strings.HasPrefix(sym, "lc!")) {
			continue
		}
		body := strings.TrimSuffix(rest[sp+1:], "))")
		vc.pcTab.defs[sym] = body
	}
	return vc.pcTab
}

// literals: the set of literals (text -> polarity) of a conjunction, following
// the definitions of pc symbols. Disjunctions and other terms are atoms.
func (t *pcDefTable) literals(term string, depth int) map[string]bool {
	out := map[string]bool{}
	t.mu.RLock()
	defer t.mu.RUnlock()
	t.collect(strings.TrimSpace(term), true, out, depth)
	return out
}

func (t *pcDefTable) collect(term string, pol bool, out map[string]bool, depth int) {
	if depth > 200 || term == "" || term == "true" {
		return
	}
	if strings.HasPrefix(term, "(not ") && strings.HasSuffix(term, ")") {
		inner := strings.TrimSpace(term[5 : len(term)-1])
		// negation of a conjunction is a disjunction: treat as an atom
		if d, ok := t.defs[inner]; ok && !strings.HasPrefix(strings.TrimSpace(d), "(and ") {
			t.collect(d, !pol, out, depth+1)
			return
		}
		if strings.HasPrefix(inner, "(and ") {
			return
		}
		t.put(inner, !pol, out)
		return
	}
	if pol && strings.HasPrefix(term, "(or ") && strings.HasSuffix(term, ")") {
		// literals common to every disjunct hold for the disjunction
		var common map[string]bool
		for _, c := range splitTop(term[4 : len(term)-1]) {
			m := map[string]bool{}
			t.collect(c, true, m, depth+1)
			if common == nil {
				common = m
				continue
			}
			for k, p := range common {
				if q, ok := m[k]; !ok || q != p {
					delete(common, k)
				}
			}
		}
		for k, p := range common {
			t.put(k, p, out)
		}
		return
	}
	if pol && strings.HasPrefix(term, "(and ") && strings.HasSuffix(term, ")") {
		for _, c := range splitTop(term[5 : len(term)-1]) {
			t.collect(c, true, out, depth+1)
		}
		return
	}
	if d, ok := t.defs[term]; ok {
		if pol {
			t.collect(d, true, out, depth+1)
		} else if !strings.HasPrefix(strings.TrimSpace(d), "(and ") {
			t.collect(d, false, out, depth+1)
		}
		// also record the symbol itself
		t.put(term, pol, out)
		return
	}
	t.put(term, pol, out)
}

func (t *pcDefTable) put(lit string, pol bool, out map[string]bool) {
	if _, ok := out[lit]; !ok {
		out[lit] = pol
	}
}

// splitTop splits a sequence of s-expressions at top level.
func splitTop(s string) []string {
	var out []string
	depth, start := 0, -1
	for i := 0; i < len(s); i++ {
		c := s[i]
		switch {
		case c == '(':
			if depth == 0 && start < 0 {
				start = i
			}
			depth++
		case c == ')':
			depth--
			if depth == 0 && start >= 0 {
				out = append(out, s[start:i+1])
				start = -1
			}
		case c == ' ' || c == '\n' || c == '\t':
			if depth == 0 && start >= 0 {
				out = append(out, s[start:i])
				start = -1
			}
		default:
			if depth == 0 && start < 0 {
				start = i
			}
		}
	}
	if start >= 0 {
		out = append(out, s[start:])
	}
	return out
}

// guardOf: G of an assumption `(assert (=> G F))`.
func guardOf(a string) string {
	const pre = "(assert (=> "
	if !strings.HasPrefix(a, pre) {
		return ""
	}
	parts := splitTop(a[len(pre) : len(a)-2])
	if len(parts) != 2 {
		return ""
	}
	return parts[0]
}

// definedSym: x!n of an assumption `(assert (= x!n term))` that defines a
// local abbreviation (introduced by define / definePC / merges).
func definedSym(a string) string {
	const pre = "(assert (= "
	if !strings.HasPrefix(a, pre) {
		return ""
	}
	rest := a[len(pre):]
	sp := strings.IndexByte(rest, ' ')
	if sp <= 0 {
		return ""
	}
	sym := rest[:sp]
	if strings.ContainsAny(sym, "()") || !strings.Contains(sym, "!") {
		return ""
	}
	return sym
}

func conflict(a, b map[string]bool) bool {
	if len(a) > len(b) {
		a, b = b, a
	}
	for k, p := range a {
		if q, ok := b[k]; ok && p != q {
			return true
		}
	}
	return false
}
