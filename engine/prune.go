package main

// Pruning of assumptions by path condition: an assumption `(=> G F)` whose
// guard G contradicts the path condition of the goal (it belongs to another
// arm of a switch or to the other branch of an if) is left out of the query.
// Leaving out assumptions can only weaken the hypotheses.

import (
	"regexp"
	"sort"
	"strings"
	"sync"
)

type pcDefTable struct {
	defs map[string]string          // pc!N / c!N ... -> defining term text
	memo map[string]map[string]bool // symbol|polarity -> literal set
	mu   sync.RWMutex
	memoMu sync.Mutex
}

// pcDefs collects the definitions `(assert (= sym term))` of Boolean helper
// symbols among the first n assumptions.
func (vc *VC) pcDefs(n int) *pcDefTable {
	vc.symMu.Lock()
	defer vc.symMu.Unlock()
	if vc.pcTab == nil {
		vc.pcTab = &pcDefTable{defs: map[string]string{}, memo: map[string]map[string]bool{}}
	}
	if vc.pcScanned >= n || vc.pcScanned >= len(vc.assumes) {
		return vc.pcTab
	}
	vc.pcTab.mu.Lock()
	defer vc.pcTab.mu.Unlock()
	for ; vc.pcScanned < n && vc.pcScanned < len(vc.assumes); vc.pcScanned++ {
		a := vc.assumes[vc.pcScanned]
		const pre = "(assert (= "
		if !strings.HasPrefix(a, pre) {
			continue
		}
		rest := a[len(pre):]
		sp := strings.IndexByte(rest, ' ')
		if sp <= 0 {
			continue
		}
		sym := rest[:sp]
		if !(strings.HasPrefix(sym, "pc!") || strings.HasPrefix(sym, "c!") || strings.HasPrefix(sym, "case!") || strings.HasPrefix(sym, "tcase!") || strings.HasPrefix(sym, "lc!")) {
			continue
		}
		body := strings.TrimSuffix(rest[sp+1:], "))")
		vc.pcTab.defs[sym] = body
	}
	return vc.pcTab
}

// literals: the set of literals (text -> polarity) of a conjunction, following
// the definitions of pc symbols. Disjunctions and other terms are atoms.
func (t *pcDefTable) literals(term string, depth int) map[string]bool {
	out := map[string]bool{}
	t.mu.RLock()
	defer t.mu.RUnlock()
	t.collect(strings.TrimSpace(term), true, out, depth)
	return out
}

func (t *pcDefTable) collect(term string, pol bool, out map[string]bool, depth int) {
	if depth > 200 || term == "" || term == "true" {
		return
	}
	if strings.HasPrefix(term, "(not ") && strings.HasSuffix(term, ")") {
		inner := strings.TrimSpace(term[5 : len(term)-1])
		// negation of a conjunction is a disjunction: treat as an atom
		if d, ok := t.defs[inner]; ok && !strings.HasPrefix(strings.TrimSpace(d), "(and ") {
			t.collect(d, !pol, out, depth+1)
			return
		}
		if strings.HasPrefix(inner, "(and ") {
			return
		}
		t.put(inner, !pol, out)
		return
	}
	if pol && strings.HasPrefix(term, "(or ") && strings.HasSuffix(term, ")") {
		// literals common to every disjunct hold for the disjunction
		var common map[string]bool
		for _, c := range splitTop(term[4 : len(term)-1]) {
			m := map[string]bool{}
			t.collect(c, true, m, depth+1)
			if common == nil {
				common = m
				continue
			}
			for k, p := range common {
				if q, ok := m[k]; !ok || q != p {
					delete(common, k)
				}
			}
		}
		for k, p := range common {
			t.put(k, p, out)
		}
		return
	}
	if pol && strings.HasPrefix(term, "(and ") && strings.HasSuffix(term, ")") {
		for _, c := range splitTop(term[5 : len(term)-1]) {
			t.collect(c, true, out, depth+1)
		}
		return
	}
	if d, ok := t.defs[term]; ok {
		// the literal set of a defined symbol is computed once: a path condition
		// after k merges refers to its predecessors twice per merge, and
		// re-expanding them is exponential in k
		key := term + "|+"
		if !pol {
			key = term + "|-"
		}
		t.memoMu.Lock()
		m, have := t.memo[key]
		t.memoMu.Unlock()
		if !have {
			m = map[string]bool{}
			if pol {
				t.collect(d, true, m, depth+1)
			} else if !strings.HasPrefix(strings.TrimSpace(d), "(and ") {
				t.collect(d, false, m, depth+1)
			}
			if depth < 100 {
				t.memoMu.Lock()
				t.memo[key] = m
				t.memoMu.Unlock()
			}
		}
		for k, p := range m {
			t.put(k, p, out)
		}
		// also record the symbol itself
		t.put(term, pol, out)
		return
	}
	t.put(term, pol, out)
}

func (t *pcDefTable) put(lit string, pol bool, out map[string]bool) {
	if _, ok := out[lit]; !ok {
		out[lit] = pol
	}
}

// splitTop splits a sequence of s-expressions at top level.
func splitTop(s string) []string {
	var out []string
	depth, start := 0, -1
	for i := 0; i < len(s); i++ {
		c := s[i]
		switch {
		case c == '(':
			if depth == 0 && start < 0 {
				start = i
			}
			depth++
		case c == ')':
			depth--
			if depth == 0 && start >= 0 {
				out = append(out, s[start:i+1])
				start = -1
			}
		case c == ' ' || c == '\n' || c == '\t':
			if depth == 0 && start >= 0 {
				out = append(out, s[start:i])
				start = -1
			}
		default:
			if depth == 0 && start < 0 {
				start = i
			}
		}
	}
	if start >= 0 {
		out = append(out, s[start:])
	}
	return out
}

// guardOf: G of an assumption `(assert (=> G F))`.
func guardOf(a string) string {
	const pre = "(assert (=> "
	if !strings.HasPrefix(a, pre) {
		return ""
	}
	parts := splitTop(a[len(pre) : len(a)-2])
	if len(parts) != 2 {
		return ""
	}
	return parts[0]
}

// definedSym: x!n of an assumption `(assert (= x!n term))` that defines a
// local abbreviation (introduced by define / definePC / merges).
func definedSym(a string) string {
	const pre = "(assert (= "
	if !strings.HasPrefix(a, pre) {
		return ""
	}
	rest := a[len(pre):]
	sp := strings.IndexByte(rest, ' ')
	if sp <= 0 {
		return ""
	}
	sym := rest[:sp]
	if strings.ContainsAny(sym, "()") || !strings.Contains(sym, "!") {
		return ""
	}
	return sym
}

func conflict(a, b map[string]bool) bool {
	if len(a) > len(b) {
		a, b = b, a
	}
	for k, p := range a {
		if q, ok := b[k]; ok && p != q {
			return true
		}
	}
	return false
}

// ---- pruning by implementer kind -------------------------------------------
//
// An interface sort with many implementers (Evaler: ~80, ast.IsNode: ~35,
// types.Value: 10) brings two quantified axioms per implementer, and the
// contracts imported for dispatch or for pure functions have one clause per
// implementer. A goal about one kind of node needs only the clauses of the
// kinds it can reach. pruneKinds drops, from the axioms that precede the
// `; @core` marker,
//   - the inj/proj axioms of implementers that are not mentioned, and
//   - contract clauses (lines ending in `; @guard k...`) none of whose guard
//     kinds is mentioned,
// where "mentioned" is the least set containing the kinds named in the core
// (goal, local assumptions, unguarded axioms) and closed under the clauses
// kept. Dropping hypotheses can only weaken them: a pruned query that is
// unsat proves the obligation; any other answer is discarded and the full
// query decides.

var kindRefRe = regexp.MustCompile(`(?:inj|proj)\.(I_[^\s()]+)\.(\d+)`)
var implAxRe = regexp.MustCompile(`^\(assert \(forall \(\((?:x|i) [^)]*\)\) \(! .*:pattern \(\((?:inj|proj)\.(I_[^\s()]+)\.(\d+) (?:x|i)\)\)\)\)\)\s*$`)
var closedWorldRe = regexp.MustCompile(`^\(assert \(forall \(\(i I_[^\s()]+\)\) \(! \(or \(= \(tag\.`)
var defFunRe = regexp.MustCompile(`^\(define-fun ([^\s()]+) `)

func kindMentions(text string, add func(string)) {
	for _, m := range kindRefRe.FindAllStringSubmatch(text, -1) {
		add(m[1] + "." + m[2])
	}
	const pre = "(= (tag."
	for off := 0; ; {
		i := strings.Index(text[off:], pre)
		if i < 0 {
			break
		}
		i += off
		off = i + len(pre)
		j := strings.IndexByte(text[off:], ' ')
		if j < 0 {
			break
		}
		iface := text[off : off+j]
		// skip the argument term of tag
		k := off + j + 1
		depth := 0
		for k < len(text) {
			c := text[k]
			if c == '(' {
				depth++
			} else if c == ')' {
				if depth == 0 {
					break
				}
				depth--
			}
			k++
		}
		// text[k] closes (tag ...; then " K)"
		if k+2 >= len(text) || text[k+1] != ' ' {
			continue
		}
		e := k + 2
		for e < len(text) && text[e] >= '0' && text[e] <= '9' {
			e++
		}
		if e > k+2 && e < len(text) && text[e] == ')' {
			add(iface + "." + text[k+2:e])
		}
	}
}

func pruneKinds(q string) string {
	lines := strings.Split(q, "\n")
	core := -1
	for i, ln := range lines {
		if ln == "; @core" {
			core = i
			break
		}
	}
	if core < 0 {
		return q
	}
	type clause struct {
		idx    int
		guards []string
		trig   string // head symbol of the clause's first pattern
		seen   bool   // trig occurs in the text kept so far
	}
	rel := map[string]bool{}
	var fresh []string // texts whose mentions are not yet processed
	note := func(t string) { fresh = append(fresh, t) }
	drop := make([]bool, len(lines))
	implOf := map[int]string{}
	var clauses []clause
	defs := map[string]int{}
	reached := map[string]bool{}
	nImpl := 0
	for i := 0; i < core; i++ {
		ln := lines[i]
		if !strings.HasPrefix(ln, "(assert") {
			if m := defFunRe.FindStringSubmatch(ln); m != nil {
				defs[m[1]] = i
			}
			continue
		}
		if m := implAxRe.FindStringSubmatch(ln); m != nil {
			implOf[i] = m[1] + "." + m[2]
			drop[i] = true
			nImpl++
			continue
		}
		if closedWorldRe.MatchString(ln) {
			continue
		}
		if g := strings.LastIndex(ln, "; @guard"); g >= 0 {
			gs := strings.Fields(ln[g+len("; @guard"):])
			trig := ""
			if p := strings.Index(ln, ":pattern (("); p >= 0 {
				rest := ln[p+len(":pattern (("):]
				if e := strings.IndexAny(rest, " )"); e > 0 {
					trig = rest[:e]
				}
			}
			if len(gs) > 0 || trig != "" {
				clauses = append(clauses, clause{idx: i, guards: gs, trig: trig, seen: trig == ""})
				drop[i] = true
				continue
			}
		}
		note(ln)
	}
	if nImpl < 24 && len(clauses) < 12 {
		return q
	}
	for i := core; i < len(lines); i++ {
		note(lines[i])
	}
	for len(fresh) > 0 {
		batch := fresh
		fresh = nil
		for _, t := range batch {
			kindMentions(t, func(k string) { rel[k] = true })
			for name, idx := range defs {
				if !reached[name] && strings.Contains(t, name) {
					reached[name] = true
					note(lines[idx])
				}
			}
		}
		for ci := range clauses {
			c := &clauses[ci]
			if !drop[c.idx] {
				continue
			}
			if !c.seen {
				for _, t := range batch {
					if strings.Contains(t, c.trig) {
						c.seen = true
						break
					}
				}
				if !c.seen {
					continue
				}
			}
			ok := len(c.guards) == 0
			for _, g := range c.guards {
				if rel[g] {
					ok = true
					break
				}
			}
			if ok {
				drop[c.idx] = false
				note(lines[c.idx])
			}
		}
	}
	for i, k := range implOf {
		if rel[k] {
			drop[i] = false
		}
	}
	var sb strings.Builder
	n := 0
	for i, ln := range lines {
		if drop[i] {
			n++
			continue
		}
		sb.WriteString(ln)
		sb.WriteByte('\n')
	}
	if n == 0 {
		return q
	}
	return sb.String()
}

// guardKinds: the implementer kinds tested by the antecedent of a contract
// clause `A ==> B` (empty when the clause is not an implication).
func (vc *VC) guardKinds(e CExpr, env *SpecEnv) string {
	b, ok := e.(CBinary)
	if !ok || b.Op != "==>" {
		return ""
	}
	g := vc.specBool(b.X, env)
	set := map[string]bool{}
	kindMentions(g.S, func(k string) { set[k] = true })
	var ks []string
	for k := range set {
		ks = append(ks, k)
	}
	sort.Strings(ks)
	return strings.Join(ks, " ")
}
