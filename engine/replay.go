package main

// Replay of solver models against the real code (filled in later).

func tryReplay(o options, w *World, ob *Obligation, rep map[string]interface{}) bool {
	return false
}
