package main

// Replay of solver models against the real code.
//
// For a failed obligation with a `sat` answer the inputs of the function are
// read back from the model (get-value), a Go test calling the real function
// with these inputs is injected into the package with `go test -overlay`
// (nothing is written to the repository), the observed results are fed back
// into the violated clause, and the solver decides whether the clause is
// false for what the real code did. Only inputs made of integers, booleans,
// strings and structs of those are replayable; anything else is reported as
// no-failing-input-found.

import (
	"encoding/json"
	"fmt"
	"go/types"
	"os"
	"os/exec"
	"path/filepath"
	"regexp"
	"sort"
	"strings"
)

type leaf struct {
	path string // e.g. "i", "d.value"
	expr string // SMT expression
	kind string // int bool strlen strat
}

type concrete struct {
	Kind   string               // int bool string struct
	Int    string               // decimal text
	Bool   bool
	Str    string
	Fields map[string]*concrete
	Order  []string
	T      types.Type
}

func tryReplay(o options, w *World, ob *Obligation, rep map[string]interface{}) bool {
	vc := ob.vc
	if vc == nil || vc.fi == nil {
		return false
	}
	defer func() {
		if r := recover(); r != nil {
			rep["replay_error"] = fmt.Sprint(r)
		}
	}()
	sig := vc.fi.Obj.Type().(*types.Signature)
	// 1. inputs from the model
	type input struct {
		name string
		t    types.Type
		term Term
	}
	var ins []input
	if sig.Recv() != nil {
		ins = append(ins, input{"self", sig.Recv().Type(), vc.entry["self"].(Term)})
	}
	pn := vc.paramNames(vc.fc, sig)
	for i, n := range pn {
		tm, ok := vc.entry[n].(Term)
		if !ok {
			return false
		}
		ins = append(ins, input{n, sig.Params().At(i).Type(), tm})
	}
	vals := map[string]*concrete{}
	for _, in := range ins {
		c, ok := vc.readBack(ob, in.term, in.t)
		if !ok {
			rep["replay_skipped"] = "input " + in.name + " of type " + in.t.String() + " is not replayable"
			return false
		}
		vals[in.name] = c
	}
	inputsText := map[string]string{}
	for k, v := range vals {
		inputsText[k] = v.goLiteral(vc.fi.Pkg.Types)
	}
	rep["failing_input"] = inputsText
	// 2. run the real code
	sentinels := vc.sentinelsInContract()
	src := vc.replaySource(vals, ins[0].name == "self" && sig.Recv() != nil, pn, sentinels)
	pkgDir := filepath.Dir(w.fset.Position(vc.fi.Decl.Pos()).Filename)
	outDir := filepath.Join(o.outBase, "replay")
	os.MkdirAll(outDir, 0o755)
	testFile := filepath.Join(outDir, sanitize(ob.Name)+"_test.go")
	os.WriteFile(testFile, []byte(src), 0o644)
	ov := filepath.Join(outDir, sanitize(ob.Name)+"_overlay.json")
	writeJSON(ov, map[string]interface{}{"Replace": map[string]string{filepath.Join(pkgDir, "zz_govc_replay_test.go"): testFile}})
	cmd := exec.Command("go", "test", "-tags", "verif", "-overlay", ov, "-vet=off", "-count=1", "-v", "-timeout", "60s", "-run", "^TestGovcReplay$", ".")
	cmd.Dir = pkgDir
	cmd.Env = append(os.Environ(), "GOFLAGS=-mod=mod", "GOPROXY=off", "GOSUMDB=off", "GOTOOLCHAIN=local")
	outb, _ := cmd.CombinedOutput()
	out := string(outb)
	rep["replay_test"] = testFile
	rep["replay_cmd"] = fmt.Sprintf("cd %s && go test -tags verif -overlay %s -vet=off -count=1 -v -timeout 60s -run '^TestGovcReplay$' .", pkgDir, ov)
	m := regexp.MustCompile(`GOVC-REPLAY: (\{.*\})`).FindStringSubmatch(out)
	if m == nil {
		if strings.Contains(out, "panic:") {
			rep["replay_outcome"] = "real code panicked: " + firstLines(out[strings.Index(out, "panic:"):], 6)
			return strings.HasPrefix(ob.Kind, "safe:") || ob.Kind == "post"
		}
		rep["replay_outcome"] = "replay test did not run: " + firstLines(out, 12)
		return false
	}
	var observed map[string]json.RawMessage
	if err := json.Unmarshal([]byte(m[1]), &observed); err != nil {
		rep["replay_outcome"] = "cannot parse replay output"
		return false
	}
	rep["observed"] = json.RawMessage(m[1])
	if ob.Kind != "post" {
		rep["replay_outcome"] = "real code ran without panic on the model input; obligation kind " + ob.Kind + " has no observable clause"
		return false
	}
	// 3. evaluate the violated clause on the observed behaviour
	var clause *Clause
	for i := range vc.fc.Ensures {
		en := &vc.fc.Ensures[i]
		label := en.Name
		if label == "" {
			label = fmt.Sprint(i + 1)
		}
		if strings.HasSuffix(ob.Name, "#post:"+label) {
			clause = en
		}
	}
	if clause == nil {
		return false
	}
	env := &SpecEnv{vc: vc, vars: map[string]Value{}, old: map[string]Value{}, pkg: vc.fi.Pkg.PkgPath}
	var extra []string
	for _, in := range ins {
		t := vc.concreteTerm(vals[in.name], in.t)
		env.vars[in.name], env.old[in.name] = t, t
		if in.name == "self" {
			rn := fiRecvName(vc.fi)
			env.vars[rn], env.old[rn] = t, t
		}
	}
	rnames := vc.resultNames(vc.fc, sig)
	for i, rn := range rnames {
		raw, ok := observed[fmt.Sprintf("r%d", i)]
		if !ok {
			return false
		}
		rt := sig.Results().At(i).Type()
		t, facts, ok := vc.observedTerm(raw, rt, fmt.Sprintf("obs%d", i), sentinels)
		if !ok {
			rep["replay_outcome"] = "result " + rn + " is not replayable"
			return false
		}
		extra = append(extra, facts...)
		env.vars[rn] = t
		if len(rnames) == 1 {
			env.vars["result"] = t
		}
	}
	c := vc.specBool(clause.Expr, env)
	var sb strings.Builder
	sb.WriteString("(set-logic ALL)\n" + prelude + vc.ss.decls())
	for id, v := range vc.w.strOrder {
		fmt.Fprintf(&sb, "(declare-const lit.%d Str)\n(assert (= (gs.len lit.%d) %d))\n", id, id, len(v))
		for k := 0; k < len(v) && k < 64; k++ {
			fmt.Fprintf(&sb, "(assert (= (gs.at lit.%d %d) %d))\n", id, k, v[k])
		}
	}
	sp := vc.specs()
	for _, d := range vc.gdecls {
		sb.WriteString(d + "\n")
	}
	for _, d := range sp.decls {
		sb.WriteString(d + "\n")
	}
	for _, d := range sp.defs {
		sb.WriteString(d + "\n")
	}
	for _, d := range vc.gassumes {
		sb.WriteString(d + "\n")
	}
	for _, e := range extra {
		sb.WriteString(e + "\n")
	}
	fmt.Fprintf(&sb, "(assert %s)\n(check-sat)\n", c.S)
	qf := filepath.Join(outDir, sanitize(ob.Name)+"_clause.smt2")
	os.WriteFile(qf, []byte(sb.String()), 0o644)
	r := runSolver(solvers[0], qf, 20000)
	if r.verdict != "unsat" && r.verdict != "sat" {
		r = runSolver(solvers[2], qf, 20000)
	}
	rep["clause_on_observed"] = r.verdict
	if r.verdict == "unsat" {
		rep["replay_outcome"] = "REPRODUCED: the real code, run on the model input, returns results for which the clause `" + clause.Src + "` is false"
		return true
	}
	rep["replay_outcome"] = "not reproduced: the clause holds for what the real code returned on the model input (candidate model was spurious or depends on abstracted callees)"
	return false
}

// readBack obtains the concrete value of an input term from the model.
func (vc *VC) readBack(ob *Obligation, t Term, gt types.Type) (*concrete, bool) {
	switch u := vc.underlying(gt).(type) {
	case *types.Basic:
		switch {
		case u.Info()&types.IsInteger != 0:
			v, ok := vc.getValue(ob, t.S)
			if !ok {
				return nil, false
			}
			return &concrete{Kind: "int", Int: v, T: gt}, true
		case u.Info()&types.IsBoolean != 0:
			v, ok := vc.getValue(ob, t.S)
			if !ok {
				return nil, false
			}
			return &concrete{Kind: "bool", Bool: v == "true", T: gt}, true
		case u.Info()&types.IsString != 0:
			n, ok := vc.getValue(ob, fmt.Sprintf("(gs.len %s)", t.S))
			if !ok {
				return nil, false
			}
			var ln int
			fmt.Sscan(n, &ln)
			if ln > 4096 {
				return nil, false
			}
			var exprs []string
			for i := 0; i < ln; i++ {
				exprs = append(exprs, fmt.Sprintf("(gs.at %s %d)", t.S, i))
			}
			bs := make([]byte, ln)
			if ln > 0 {
				vs, ok := vc.getValues(ob, exprs)
				if !ok {
					return nil, false
				}
				for i, v := range vs {
					var b int
					fmt.Sscan(v, &b)
					bs[i] = byte(b)
				}
			}
			return &concrete{Kind: "string", Str: string(bs), T: gt}, true
		}
	case *types.Struct:
		si := vc.ss.info[t.Sort]
		if si == nil || si.Kind != "struct" {
			return nil, false
		}
		c := &concrete{Kind: "struct", Fields: map[string]*concrete{}, T: gt}
		for _, f := range si.Fields {
			ft := Term{fmt.Sprintf("(%s.%s %s)", t.Sort, f.Name, t.S), f.Sort, f.T}
			fc, ok := vc.readBack(ob, ft, f.T)
			if !ok {
				return nil, false
			}
			c.Fields[f.Name] = fc
			c.Order = append(c.Order, f.Name)
		}
		return c, true
	}
	return nil, false
}

func (vc *VC) getValue(ob *Obligation, expr string) (string, bool) {
	vs, ok := vc.getValues(ob, []string{expr})
	if !ok {
		return "", false
	}
	return vs[0], true
}

var modelCache = map[string]string{}

func (vc *VC) getValues(ob *Obligation, exprs []string) ([]string, bool) {
	q := vc.buildQuery(ob, false)
	q = strings.Replace(q, "(set-logic ALL)", "(set-option :produce-models true)\n(set-logic ALL)", 1)
	var sb strings.Builder
	sb.WriteString(q)
	for _, e := range exprs {
		fmt.Fprintf(&sb, "(get-value (%s))\n", e)
	}
	f := filepath.Join(filepath.Dir(ob.Query), sanitize(ob.Name)+"_getvalue.smt2")
	os.WriteFile(f, []byte(sb.String()), 0o644)
	r := runSolver(solvers[0], f, 20000)
	if r.verdict != "sat" {
		return nil, false
	}
	// each get-value prints ((expr value))
	var out []string
	rest := r.output
	if i := strings.Index(rest, "sat"); i >= 0 {
		rest = rest[i+3:]
	}
	for _, e := range exprs {
		_ = e
		i := strings.Index(rest, "((")
		if i < 0 {
			return nil, false
		}
		// find matching close of the outer paren
		depth := 0
		j := i
		for ; j < len(rest); j++ {
			if rest[j] == '(' {
				depth++
			} else if rest[j] == ')' {
				depth--
				if depth == 0 {
					break
				}
			}
		}
		entry := rest[i+2 : j-1] // expr value
		rest = rest[j+1:]
		// the value is the last balanced token
		val := lastToken(entry)
		out = append(out, normalizeNum(val))
	}
	return out, true
}

func lastToken(s string) string {
	s = strings.TrimSpace(s)
	if strings.HasSuffix(s, ")") {
		depth := 0
		for i := len(s) - 1; i >= 0; i-- {
			if s[i] == ')' {
				depth++
			} else if s[i] == '(' {
				depth--
				if depth == 0 {
					return s[i:]
				}
			}
		}
	}
	if i := strings.LastIndexAny(s, " \n\t"); i >= 0 {
		return s[i+1:]
	}
	return s
}

func normalizeNum(v string) string {
	v = strings.TrimSpace(v)
	if strings.HasPrefix(v, "(-") {
		return "-" + strings.TrimSpace(strings.TrimSuffix(strings.TrimPrefix(v, "(-"), ")"))
	}
	return v
}

func (c *concrete) goLiteral(rel *types.Package) string {
	tn := types.TypeString(c.T, types.RelativeTo(rel))
	switch c.Kind {
	case "int":
		return fmt.Sprintf("%s(%s)", tn, c.Int)
	case "bool":
		return fmt.Sprintf("%s(%v)", tn, c.Bool)
	case "string":
		return fmt.Sprintf("%s(%q)", tn, c.Str)
	case "struct":
		var parts []string
		for _, f := range c.Order {
			parts = append(parts, f+": "+c.Fields[f].goLiteral(rel))
		}
		return fmt.Sprintf("%s{%s}", tn, strings.Join(parts, ", "))
	}
	return "nil"
}

func (vc *VC) concreteTerm(c *concrete, gt types.Type) Term {
	switch c.Kind {
	case "int":
		n := c.Int
		if strings.HasPrefix(n, "-") {
			n = "(- " + n[1:] + ")"
		}
		return Term{n, SInt, gt}
	case "bool":
		t := tBool(c.Bool)
		t.T = gt
		return t
	case "string":
		return vc.w.strLit(c.Str, gt)
	case "struct":
		s := vc.ss.sortOf(gt)
		si := vc.ss.info[s]
		var parts []string
		for _, f := range si.Fields {
			parts = append(parts, vc.concreteTerm(c.Fields[f.Name], f.T).S)
		}
		if len(parts) == 0 {
			return Term{"mk." + string(s), s, gt}
		}
		return Term{fmt.Sprintf("(mk.%s %s)", s, strings.Join(parts, " ")), s, gt}
	}
	return Term{"0", SInt, gt}
}

// observedTerm builds an SMT term for a result observed in the replay run.
func (vc *VC) observedTerm(raw json.RawMessage, rt types.Type, name string, sentinels []*types.Var) (Term, []string, bool) {
	if vc.ss.sortOf(rt) == SErr {
		var e struct {
			Nil bool            `json:"nil"`
			Is  map[string]bool `json:"is"`
		}
		if json.Unmarshal(raw, &e) != nil {
			return Term{}, nil, false
		}
		if e.Nil {
			return Term{"err.nil", SErr, rt}, nil, true
		}
		facts := []string{fmt.Sprintf("(declare-const %s Err)", name), fmt.Sprintf("(assert (not (= %s err.nil)))", name)}
		for _, s := range sentinels {
			g := vc.globalVar(s, 0)
			if e.Is[s.Name()] {
				facts = append(facts, fmt.Sprintf("(assert (err.is %s %s))", name, g.S))
			} else {
				facts = append(facts, fmt.Sprintf("(assert (not (err.is %s %s)))", name, g.S))
			}
		}
		return Term{name, SErr, rt}, facts, true
	}
	c, ok := decodeObserved(raw, rt, vc)
	if !ok {
		return Term{}, nil, false
	}
	return vc.concreteTerm(c, rt), nil, true
}

func decodeObserved(raw json.RawMessage, rt types.Type, vc *VC) (*concrete, bool) {
	switch u := vc.underlying(rt).(type) {
	case *types.Basic:
		switch {
		case u.Info()&types.IsInteger != 0:
			return &concrete{Kind: "int", Int: strings.Trim(string(raw), "\""), T: rt}, true
		case u.Info()&types.IsBoolean != 0:
			return &concrete{Kind: "bool", Bool: string(raw) == "true", T: rt}, true
		case u.Info()&types.IsString != 0:
			var s string
			if json.Unmarshal(raw, &s) != nil {
				return nil, false
			}
			return &concrete{Kind: "string", Str: s, T: rt}, true
		}
	case *types.Struct:
		var m map[string]json.RawMessage
		if json.Unmarshal(raw, &m) != nil {
			return nil, false
		}
		c := &concrete{Kind: "struct", Fields: map[string]*concrete{}, T: rt}
		for i := 0; i < u.NumFields(); i++ {
			f := u.Field(i)
			fr, ok := m[f.Name()]
			if !ok {
				return nil, false
			}
			fc, ok := decodeObserved(fr, f.Type(), vc)
			if !ok {
				return nil, false
			}
			c.Fields[f.Name()] = fc
			c.Order = append(c.Order, f.Name())
		}
		return c, true
	}
	return nil, false
}

// sentinelsInContract: package-level error variables of the function's
// package (candidates for errIs checks in the replay test).
func (vc *VC) sentinelsInContract() []*types.Var {
	var out []*types.Var
	sc := vc.fi.Pkg.Types.Scope()
	for _, n := range sc.Names() {
		if v, ok := sc.Lookup(n).(*types.Var); ok && vc.ss.sortOf(v.Type()) == SErr {
			out = append(out, v)
		}
	}
	sort.Slice(out, func(i, j int) bool { return out[i].Name() < out[j].Name() })
	return out
}

func (vc *VC) replaySource(vals map[string]*concrete, hasRecv bool, pn []string, sentinels []*types.Var) string {
	pkg := vc.fi.Pkg.Types
	var sb strings.Builder
	fmt.Fprintf(&sb, "package %s\n\n// generated by govc: replay of a solver model against the real code\n\n", pkg.Name())
	sb.WriteString("import (\n\t\"encoding/json\"\n\t\"errors\"\n\t\"fmt\"\n\t\"reflect\"\n\t\"testing\"\n)\n\n")
	sb.WriteString(`func govcDump(v reflect.Value) interface{} {
	switch v.Kind() {
	case reflect.Int, reflect.Int8, reflect.Int16, reflect.Int32, reflect.Int64:
		return fmt.Sprint(v.Int())
	case reflect.Uint, reflect.Uint8, reflect.Uint16, reflect.Uint32, reflect.Uint64:
		return fmt.Sprint(v.Uint())
	case reflect.Bool:
		return v.Bool()
	case reflect.String:
		return v.String()
	case reflect.Struct:
		m := map[string]interface{}{}
		for i := 0; i < v.NumField(); i++ {
			m[v.Type().Field(i).Name] = govcDump(v.Field(i))
		}
		return m
	}
	return "unsupported:" + v.Kind().String()
}

`)
	sb.WriteString("func govcErr(err error) interface{} {\n\tif err == nil {\n\t\treturn map[string]interface{}{\"nil\": true}\n\t}\n\tis := map[string]bool{}\n")
	for _, s := range sentinels {
		fmt.Fprintf(&sb, "\tis[%q] = errors.Is(err, %s)\n", s.Name(), s.Name())
	}
	sb.WriteString("\treturn map[string]interface{}{\"nil\": false, \"is\": is, \"msg\": err.Error()}\n}\n\n")
	sb.WriteString("func TestGovcReplay(t *testing.T) {\n")
	sig := vc.fi.Obj.Type().(*types.Signature)
	var args []string
	for _, n := range pn {
		args = append(args, vals[n].goLiteral(pkg))
	}
	call := vc.fi.Obj.Name() + "(" + strings.Join(args, ", ") + ")"
	if hasRecv {
		fmt.Fprintf(&sb, "\trecv := %s\n", vals["self"].goLiteral(pkg))
		call = "recv." + call
	}
	nres := sig.Results().Len()
	var rn []string
	for i := 0; i < nres; i++ {
		rn = append(rn, fmt.Sprintf("r%d", i))
	}
	if nres > 0 {
		fmt.Fprintf(&sb, "\t%s := %s\n", strings.Join(rn, ", "), call)
	} else {
		fmt.Fprintf(&sb, "\t%s\n", call)
	}
	sb.WriteString("\tout := map[string]interface{}{}\n")
	for i := 0; i < nres; i++ {
		if vc.ss.sortOf(sig.Results().At(i).Type()) == SErr {
			fmt.Fprintf(&sb, "\tout[\"r%d\"] = govcErr(r%d)\n", i, i)
		} else {
			fmt.Fprintf(&sb, "\tout[\"r%d\"] = govcDump(reflect.ValueOf(r%d))\n", i, i)
		}
	}
	sb.WriteString("\tb, _ := json.Marshal(out)\n\tfmt.Printf(\"GOVC-REPLAY: %s\\n\", b)\n}\n")
	return sb.String()
}
