package main

// SMT terms, sorts, and the Go-type -> SMT-sort mapping.

import (
	"fmt"
	"go/types"
	"math/big"
	"sort"
	"strings"
)

type Sort string

const (
	SInt  Sort = "Int"
	SBool Sort = "Bool"
	SStr  Sort = "Str"
	SErr  Sort = "Err"
	SFn   Sort = "Fn"
	SReal Sort = "Real"
)

// Term is an SMT-LIB term (as text) with its sort and, when known, the Go type
// it came from.
type Term struct {
	S    string
	Sort Sort
	T    types.Type
}

func (t Term) String() string { return t.S }

func mk(s string, sort Sort, t types.Type) Term { return Term{s, sort, t} }

func app(fn string, args ...Term) string {
	if len(args) == 0 {
		return fn
	}
	var sb strings.Builder
	sb.WriteString("(")
	sb.WriteString(fn)
	for _, a := range args {
		sb.WriteString(" ")
		sb.WriteString(a.S)
	}
	sb.WriteString(")")
	return sb.String()
}

func intLit(v *big.Int) string {
	if v.Sign() < 0 {
		return "(- " + new(big.Int).Neg(v).String() + ")"
	}
	return v.String()
}

func tInt(v int64) Term { return Term{intLit(big.NewInt(v)), SInt, nil} }
func tBool(b bool) Term {
	if b {
		return Term{"true", SBool, types.Typ[types.Bool]}
	}
	return Term{"false", SBool, types.Typ[types.Bool]}
}

func tAnd(xs ...Term) Term {
	var parts []string
	for _, x := range xs {
		if x.S == "true" {
			continue
		}
		if x.S == "false" {
			return tBool(false)
		}
		parts = append(parts, x.S)
	}
	switch len(parts) {
	case 0:
		return tBool(true)
	case 1:
		return Term{parts[0], SBool, nil}
	}
	return Term{"(and " + strings.Join(parts, " ") + ")", SBool, nil}
}
func tOr(xs ...Term) Term {
	var parts []string
	for _, x := range xs {
		if x.S == "false" {
			continue
		}
		if x.S == "true" {
			return tBool(true)
		}
		parts = append(parts, x.S)
	}
	switch len(parts) {
	case 0:
		return tBool(false)
	case 1:
		return Term{parts[0], SBool, nil}
	}
	return Term{"(or " + strings.Join(parts, " ") + ")", SBool, nil}
}
func tNot(x Term) Term {
	switch x.S {
	case "true":
		return tBool(false)
	case "false":
		return tBool(true)
	}
	if strings.HasPrefix(x.S, "(not ") {
		return Term{x.S[5 : len(x.S)-1], SBool, nil}
	}
	return Term{"(not " + x.S + ")", SBool, nil}
}
func tImp(a, b Term) Term {
	if a.S == "true" {
		return b
	}
	if a.S == "false" || b.S == "true" {
		return tBool(true)
	}
	return Term{"(=> " + a.S + " " + b.S + ")", SBool, nil}
}
func tEq(a, b Term) Term {
	if a.S == b.S {
		return tBool(true)
	}
	return Term{"(= " + a.S + " " + b.S + ")", SBool, nil}
}
func tIte(c, a, b Term) Term {
	if c.S == "true" {
		return a
	}
	if c.S == "false" {
		return b
	}
	if a.S == b.S {
		return a
	}
	return Term{"(ite " + c.S + " " + a.S + " " + b.S + ")", a.Sort, a.T}
}

// ------------------------------------------------------------------ sort registry

type fieldInfo struct {
	Name string
	Sort Sort
	T    types.Type
}

type sortInfo struct {
	Name   Sort
	Kind   string // struct ptr slice map iface opaque array tparam
	Decl   string // SMT declaration text
	Fields []fieldInfo
	Elem   types.Type
	Key    types.Type
	GoType types.Type
}

// Sorts collects declarations on demand, in dependency order.
type Sorts struct {
	w         *World
	order     []Sort
	info      map[Sort]*sortInfo
	busy      map[Sort]bool
	hitLog    []Sort               // struct sorts found busy (recursion), in order of discovery
	deferred  map[Sort][]*sortInfo // struct sorts that mention a still-busy struct: declared right after it
	zeroBusy  map[Sort]bool        // struct sorts whose zero value is being built (recursion guard)
	byType    map[string]Sort      // types.TypeString -> sort
	tparams   map[string]types.Type
	typeIDs   map[string]int
	idTypes   []types.Type
	ifaceImpl map[Sort]map[int]types.Type // iface sort -> type ids used with inj/proj
	rangeFn   func(x Term, t types.Type, depth int) Term
	noValInv  bool     // rangeFn without representation invariants (valinv)
	late      []string // axioms that mention spec functions: emitted after their definitions
	pkg       string   // package of the function under verification
}

func newSorts(w *World) *Sorts {
	return &Sorts{w: w, info: map[Sort]*sortInfo{}, busy: map[Sort]bool{}, byType: map[string]Sort{},
		tparams: map[string]types.Type{}, typeIDs: map[string]int{}, ifaceImpl: map[Sort]map[int]types.Type{}}
}

func sanitize(s string) string {
	var sb strings.Builder
	for _, c := range s {
		switch {
		case c >= 'a' && c <= 'z', c >= 'A' && c <= 'Z', c >= '0' && c <= '9', c == '_', c == '.':
			sb.WriteRune(c)
		case c == '*':
			sb.WriteString("P")
		case c == '[' || c == ']':
			sb.WriteString("_")
		default:
			sb.WriteString("_")
		}
	}
	return sb.String()
}

func typeKey(t types.Type) string {
	return types.TypeString(t, func(p *types.Package) string { return p.Path() })
}

func shortTypeName(t types.Type) string {
	s := types.TypeString(t, func(p *types.Package) string { return p.Name() })
	return sanitize(s)
}

func (ss *Sorts) typeID(t types.Type) int {
	k := typeKey(t)
	if id, ok := ss.typeIDs[k]; ok {
		return id
	}
	id := len(ss.typeIDs) + 1
	ss.typeIDs[k] = id
	ss.idTypes = append(ss.idTypes, t)
	return id
}

func (ss *Sorts) isOpaque(n *types.Named) bool {
	if n.Obj().Pkg() == nil {
		return false
	}
	k := n.Obj().Pkg().Path() + "." + n.Obj().Name()
	return ss.w.opaque[k+"@"+ss.pkg] || ss.w.opaque[k+"@"]
}

// sortOf maps a Go type to an SMT sort, declaring it if necessary.
func (ss *Sorts) sortOf(t types.Type) Sort {
	t = types.Unalias(t)
	if tp, ok := t.(*types.TypeParam); ok {
		if a, ok := ss.tparams[tp.Obj().Name()]; ok {
			return ss.sortOf(a)
		}
		if integerConstraint(tp) != "" {
			return SInt
		}
		name := Sort("TP_" + tp.Obj().Name())
		ss.declare(&sortInfo{Name: name, Kind: "tparam", Decl: fmt.Sprintf("(declare-sort %s 0)", name), GoType: t})
		return name
	}
	key := typeKey(t)
	if len(ss.tparams) > 0 {
		// key must reflect substitution
		var ks []string
		for k, v := range ss.tparams {
			ks = append(ks, k+"="+typeKey(v))
		}
		sort.Strings(ks)
		key += "{" + strings.Join(ks, ",") + "}"
	}
	if s, ok := ss.byType[key]; ok {
		if ss.busy[s] {
			ss.hitLog = append(ss.hitLog, s) // a struct still being built, reached again (recursion)
		}
		return s
	}
	s := ss.sortOf1(t)
	ss.byType[key] = s
	return s
}

func (ss *Sorts) sortOf1(t types.Type) Sort {
	switch tt := t.(type) {
	case *types.Basic:
		switch {
		case tt.Info()&types.IsBoolean != 0:
			return SBool
		case tt.Info()&types.IsInteger != 0:
			return SInt
		case tt.Info()&types.IsString != 0:
			return SStr
		case tt.Info()&types.IsFloat != 0:
			return SReal
		case tt.Kind() == types.UntypedNil:
			return "Nil"
		case tt.Kind() == types.UnsafePointer:
			return SInt
		}
		return SInt
	case *types.Named:
		if tt.Obj().Pkg() == nil && tt.Obj().Name() == "error" {
			return SErr
		}
		full := ""
		if tt.Obj().Pkg() != nil {
			full = tt.Obj().Pkg().Path() + "." + tt.Obj().Name()
		}
		if al, ok := ss.w.aliases[full]; ok {
			if at := ss.w.lookupType(al); at != nil {
				return ss.sortOf(at)
			}
		}
		under := tt.Underlying()
		switch u := under.(type) {
		case *types.Basic:
			return ss.sortOf(u)
		case *types.Struct:
			name := Sort("T_" + shortTypeName(tt))
			if ta := tt.TypeArgs(); ta != nil && ta.Len() > 0 {
				// instantiated generic type: the name reflects the argument sorts
				// (type parameters are replaced by the current substitution)
				nm := "T_" + sanitize(tt.Obj().Pkg().Name()+"."+tt.Obj().Name())
				for i := 0; i < ta.Len(); i++ {
					nm += "_" + sanitize(string(ss.sortOf(ta.At(i))))
				}
				name = Sort(nm + "_")
			}
			// a struct declared outside the repository is opaque; a repository
			// type defined as such a struct (`type IPAddr netip.Prefix`) shares
			// its sort, so that conversions between the two are the identity
			foreign := !ss.w.inRepo(tt.Obj().Pkg())
			if !foreign && u.NumFields() > 0 && !ss.w.inRepo(u.Field(0).Pkg()) && !u.Field(0).Exported() {
				foreign = true
			}
			if foreign {
				name = Sort(fmt.Sprintf("T_ext_%x", hashString(u.String())))
				ss.declare(&sortInfo{Name: name, Kind: "opaque", Decl: fmt.Sprintf("(declare-sort %s 0) ; %s", name, shortTypeName(tt)), GoType: t})
				return name
			}
			if ss.isOpaque(tt) {
				ss.declare(&sortInfo{Name: name, Kind: "opaque", Decl: fmt.Sprintf("(declare-sort %s 0)", name), GoType: t})
				return name
			}
			return ss.structSort(name, u, tt)
		case *types.Interface:
			name := Sort("I_" + shortTypeName(tt))
			ss.declare(&sortInfo{Name: name, Kind: "iface", GoType: t,
				Decl: fmt.Sprintf("(declare-sort %s 0)\n(declare-fun tag.%s (%s) Int)\n(declare-const nil.%s %s)\n(assert (= (tag.%s nil.%s) 0))", name, name, name, name, name, name, name)})
			return name
		case *types.Signature:
			ss.declareFn()
			return SFn
		default:
			// named slice/map/pointer: use the underlying representation with the
			// type arguments in scope
			return ss.sortOf(under)
		}
	case *types.Pointer:
		h0 := len(ss.hitLog)
		es := ss.sortOf(tt.Elem())
		name := Sort("Pt_" + string(es))
		if ss.busy[es] || ss.reachedBusy(h0) {
			ss.hitLog = ss.hitLog[:h0] // the recursion is cut here
			// recursion through a pointer: opaque reference
			ss.declare(&sortInfo{Name: name, Kind: "opaque", Decl: fmt.Sprintf("(declare-sort %s 0)", name), GoType: t})
			return name
		}
		ss.declare(&sortInfo{Name: name, Kind: "ptr", Elem: ss.substType(tt.Elem()), GoType: ss.substType(t),
			Decl: fmt.Sprintf("(declare-datatypes ((%s 0)) (((nil.%s) (ref.%s (val.%s %s)))))", name, name, name, name, es)})
		return name
	case *types.Slice:
		h0 := len(ss.hitLog)
		es := ss.sortOf(tt.Elem())
		name := Sort("Sl_" + string(es))
		if ss.busy[es] || ss.reachedBusy(h0) {
			ss.hitLog = ss.hitLog[:h0] // the recursion is cut here
			ss.declare(&sortInfo{Name: name, Kind: "opaque", Decl: fmt.Sprintf("(declare-sort %s 0)", name), GoType: t})
			return name
		}
		ss.declare(&sortInfo{Name: name, Kind: "slice", Elem: ss.substType(tt.Elem()), GoType: ss.substType(t),
			Decl: fmt.Sprintf("(declare-datatypes ((%s 0)) (((mk.%s (len.%s Int) (arr.%s (Array Int %s)) (isnil.%s Bool)))))", name, name, name, name, es, name)})
		return name
	case *types.Array:
		es := ss.sortOf(tt.Elem())
		return Sort(fmt.Sprintf("(Array Int %s)", es))
	case *types.Map:
		h0 := len(ss.hitLog)
		ks := ss.sortOf(tt.Key())
		vs := ss.sortOf(tt.Elem())
		name := Sort("Mp_" + sanitize(string(ks)) + "_" + sanitize(string(vs)))
		if ss.busy[vs] || ss.busy[ks] || ss.reachedBusy(h0) {
			ss.hitLog = ss.hitLog[:h0] // the recursion is cut here
			ss.declare(&sortInfo{Name: name, Kind: "opaque", Decl: fmt.Sprintf("(declare-sort %s 0)", name), GoType: t})
			return name
		}
		ss.declare(&sortInfo{Name: name, Kind: "map", Elem: ss.substType(tt.Elem()), Key: ss.substType(tt.Key()), GoType: ss.substType(t),
			Decl: fmt.Sprintf("(declare-datatypes ((%s 0)) (((mk.%s (has.%s (Array %s Bool)) (get.%s (Array %s %s)) (card.%s Int) (isnil.%s Bool)))))", name, name, name, ks, name, ks, vs, name, name)})
		return name
	case *types.Struct:
		// an anonymous struct type is named after its fields (name and sort), so
		// that the same type reached under two type-parameter substitutions
		// (map[T]struct{} with T := K, and map[K]struct{}) has one sort
		sig := ""
		for i := 0; i < tt.NumFields(); i++ {
			sig += tt.Field(i).Name() + ":" + string(ss.sortOf(tt.Field(i).Type())) + ";"
		}
		name := Sort(fmt.Sprintf("S_anon%x", hashString(sig)))
		if tt.NumFields() == 0 {
			name = "S_empty"
		}
		if _, ok := ss.info[name]; ok {
			return name
		}
		return ss.structSort(name, tt, tt)
	case *types.Interface:
		if tt.NumMethods() == 0 {
			name := Sort("I_any")
			ss.declare(&sortInfo{Name: name, Kind: "iface", GoType: t,
				Decl: fmt.Sprintf("(declare-sort %s 0)\n(declare-fun tag.%s (%s) Int)\n(declare-const nil.%s %s)\n(assert (= (tag.%s nil.%s) 0))", name, name, name, name, name, name, name)})
			return name
		}
		name := Sort("I_anon" + fmt.Sprint(len(ss.order)))
		ss.declare(&sortInfo{Name: name, Kind: "iface", GoType: t,
			Decl: fmt.Sprintf("(declare-sort %s 0)\n(declare-fun tag.%s (%s) Int)\n(declare-const nil.%s %s)\n(assert (= (tag.%s nil.%s) 0))", name, name, name, name, name, name, name)})
		return name
	case *types.Signature:
		ss.declareFn()
		return SFn
	case *types.Tuple:
		return "Tuple"
	case *types.Chan:
		name := Sort("Chan")
		ss.declare(&sortInfo{Name: name, Kind: "opaque", Decl: "(declare-sort Chan 0)"})
		return name
	}
	panic(fmt.Sprintf("sortOf: unsupported type %T %v", t, t))
}

func (ss *Sorts) declareFn() {
	ss.declare(&sortInfo{Name: SFn, Kind: "opaque", Decl: "(declare-sort Fn 0)\n(declare-const fn.nil Fn)"})
}

func (ss *Sorts) structSort(name Sort, u *types.Struct, gt types.Type) Sort {
	if ss.info[name] != nil {
		return name
	}
	if ss.busy[name] {
		// recursive type: the enclosing pointer/slice/map becomes an opaque sort
		ss.hitLog = append(ss.hitLog, name)
		return name
	}
	ss.busy[name] = true
	hits0 := len(ss.hitLog)
	si := &sortInfo{Name: name, Kind: "struct", GoType: gt}
	var fs []string
	for i := 0; i < u.NumFields(); i++ {
		f := u.Field(i)
		fsrt := ss.sortOf(f.Type())
		si.Fields = append(si.Fields, fieldInfo{f.Name(), fsrt, ss.substType(f.Type())})
		fs = append(fs, fmt.Sprintf("(%s.%s %s)", name, f.Name(), fsrt))
	}
	delete(ss.busy, name)
	if len(fs) == 0 {
		si.Decl = fmt.Sprintf("(declare-datatypes ((%s 0)) (((mk.%s))))", name, name)
	} else {
		si.Decl = fmt.Sprintf("(declare-datatypes ((%s 0)) (((mk.%s %s))))", name, name, strings.Join(fs, " "))
	}
	// indirect recursion (T contains map[K]U, U contains T by value): U is finished while T is
	// still being built; its declaration mentions T and has to come after T's
	for _, h := range ss.hitLog[hits0:] {
		if h != name && ss.busy[h] {
			if ss.deferred == nil {
				ss.deferred = map[Sort][]*sortInfo{}
			}
			ss.deferred[h] = append(ss.deferred[h], si)
			return name
		}
	}
	ss.declare(si)
	for _, d := range ss.deferred[name] {
		ss.declare(d)
	}
	delete(ss.deferred, name)
	return name
}

// reachedBusy: the construction of a sort since hitLog position `from` ran into a struct that is
// still being built - the sort is part of a recursive type
func (ss *Sorts) reachedBusy(from int) bool {
	for _, h := range ss.hitLog[from:] {
		if ss.busy[h] {
			return true
		}
	}
	return false
}

func (ss *Sorts) declare(si *sortInfo) {
	if ss.info[si.Name] != nil {
		return
	}
	ss.info[si.Name] = si
	ss.order = append(ss.order, si.Name)
}

func (ss *Sorts) decls() string {
	var sb strings.Builder
	for _, n := range ss.order {
		sb.WriteString(ss.info[n].Decl)
		sb.WriteString("\n")
	}
	return sb.String()
}

// field access on a struct-sorted term
func (ss *Sorts) field(x Term, name string) (Term, bool) {
	si := ss.info[x.Sort]
	if si == nil || si.Kind != "struct" {
		return Term{}, false
	}
	for _, f := range si.Fields {
		if f.Name == name {
			return Term{fmt.Sprintf("(%s.%s %s)", x.Sort, name, x.S), f.Sort, f.T}, true
		}
	}
	return Term{}, false
}

// functional update of one field
func (ss *Sorts) withField(x Term, name string, v Term) Term {
	si := ss.info[x.Sort]
	var parts []string
	for _, f := range si.Fields {
		if f.Name == name {
			parts = append(parts, v.S)
		} else {
			parts = append(parts, fmt.Sprintf("(%s.%s %s)", x.Sort, f.Name, x.S))
		}
	}
	return Term{fmt.Sprintf("(mk.%s %s)", x.Sort, strings.Join(parts, " ")), x.Sort, x.T}
}

// ---- interface helpers

// injection of a concrete value into an interface sort
func (ss *Sorts) inj(iface Sort, v Term, ct types.Type) Term {
	id := ss.typeID(ct)
	cs := ss.sortOf(ct)
	ss.ensureInj(iface, id, ct, cs)
	return Term{fmt.Sprintf("(inj.%s.%d %s)", iface, id, v.S), iface, nil}
}
func (ss *Sorts) proj(iface Sort, v Term, ct types.Type) Term {
	id := ss.typeID(ct)
	cs := ss.sortOf(ct)
	ss.ensureInj(iface, id, ct, cs)
	return Term{fmt.Sprintf("(proj.%s.%d %s)", iface, id, v.S), cs, ct}
}
func (ss *Sorts) hasTag(iface Sort, v Term, ct types.Type) Term {
	id := ss.typeID(ct)
	cs := ss.sortOf(ct)
	ss.ensureInj(iface, id, ct, cs)
	return Term{fmt.Sprintf("(= (tag.%s %s) %d)", iface, v.S, id), SBool, nil}
}

func (ss *Sorts) ensureInj(iface Sort, id int, ct types.Type, cs Sort) {
	m := ss.ifaceImpl[iface]
	if m == nil {
		m = map[int]types.Type{}
		ss.ifaceImpl[iface] = m
	}
	if _, ok := m[id]; ok {
		return
	}
	m[id] = ct
	name := Sort(fmt.Sprintf("inj$%s$%d", iface, id))
	// injection is specified on well-typed payloads only (an out-of-range
	// mathematical integer is not a Go value)
	guard := "true"
	if ss.rangeFn != nil {
		// (the guard is about the integer ranges only; representation invariants
		// of the payload type are stated by the separate axiom below)
		ss.noValInv = true
		guard = ss.rangeFn(Term{"x", cs, ct}, ct, 1).S
		ss.noValInv = false
	}
	decl := fmt.Sprintf("(declare-fun inj.%s.%d (%s) %s)\n(declare-fun proj.%s.%d (%s) %s)\n", iface, id, cs, iface, iface, id, iface, cs) +
		fmt.Sprintf("(assert (forall ((x %s)) (! (=> %s (and (= (tag.%s (inj.%s.%d x)) %d) (= (proj.%s.%d (inj.%s.%d x)) x))) :pattern ((inj.%s.%d x)))))\n", cs, guard, iface, iface, id, id, iface, id, iface, id, iface, id) +
		fmt.Sprintf("(assert (forall ((i %s)) (! (=> (= (tag.%s i) %d) (= (inj.%s.%d (proj.%s.%d i)) i)) :pattern ((proj.%s.%d i)))))", iface, iface, id, iface, id, iface, id, iface, id)
	// type invariant of the payload: a value held in an interface is a
	// well-typed Go value (integers within the range of their type)
	if ss.rangeFn != nil {
		p := Term{fmt.Sprintf("(proj.%s.%d i)", iface, id), cs, ct}
		if f := ss.rangeFn(p, ct, 1); f.S != "true" {
			ax := fmt.Sprintf("(assert (forall ((i %s)) (! (=> (= (tag.%s i) %d) %s) :pattern ((proj.%s.%d i)))))", iface, iface, id, f.S, iface, id)
			if strings.Contains(f.S, "(sp.") {
				// mentions spec functions (a representation invariant): emitted
				// after their definitions
				ss.late = append(ss.late, ax)
			} else {
				decl += "\n" + ax
			}
		}
	}
	ss.declare(&sortInfo{Name: name, Kind: "inj", Decl: decl})
}

// zero value of a Go type
func (ss *Sorts) zero(t types.Type) Term {
	s := ss.sortOf(t)
	return ss.zeroOfSort(s, t)
}

func (ss *Sorts) zeroOfSort(s Sort, t types.Type) Term {
	switch s {
	case SInt:
		return Term{"0", SInt, t}
	case SBool:
		return Term{"false", SBool, t}
	case SStr:
		return ss.w.strLit("", t)
	case SErr:
		return Term{"err.nil", SErr, t}
	case SReal:
		return Term{"0.0", SReal, t}
	case SFn:
		ss.declareFn()
		return Term{"fn.nil", SFn, t}
	}
	if strings.HasPrefix(string(s), "(Array Int ") {
		if at, ok := types.Unalias(t).Underlying().(*types.Array); ok {
			z := ss.zero(at.Elem())
			return Term{fmt.Sprintf("((as const %s) %s)", s, z.S), s, t}
		}
	}
	si := ss.info[s]
	if si == nil {
		panic("zero: unknown sort " + string(s))
	}
	switch si.Kind {
	case "struct":
		// a struct that contains a slice or map of itself: the default element of
		// that (empty) collection is never read, an unconstrained constant will do
		if ss.zeroBusy == nil {
			ss.zeroBusy = map[Sort]bool{}
		}
		if ss.zeroBusy[s] {
			ss.declare(&sortInfo{Name: Sort("zero$" + string(s)), Kind: "const", Decl: fmt.Sprintf("(declare-const zero.%s %s)", s, s)})
			return Term{fmt.Sprintf("zero.%s", s), s, t}
		}
		ss.zeroBusy[s] = true
		defer delete(ss.zeroBusy, s)
		var parts []string
		for _, f := range si.Fields {
			parts = append(parts, ss.zeroOfSort(f.Sort, f.T).S)
		}
		if len(parts) == 0 {
			return Term{fmt.Sprintf("mk.%s", s), s, t}
		}
		return Term{fmt.Sprintf("(mk.%s %s)", s, strings.Join(parts, " ")), s, t}
	case "ptr":
		return Term{fmt.Sprintf("nil.%s", s), s, t}
	case "slice":
		es := ss.sortOf(si.Elem)
		z := ss.zeroOfSort(es, si.Elem)
		return Term{fmt.Sprintf("(mk.%s 0 ((as const (Array Int %s)) %s) true)", s, es, z.S), s, t}
	case "map":
		ks := ss.sortOf(si.Key)
		vs := ss.sortOf(si.Elem)
		z := ss.zeroOfSort(vs, si.Elem)
		return Term{fmt.Sprintf("(mk.%s ((as const (Array %s Bool)) false) ((as const (Array %s %s)) %s) 0 true)", s, ks, ks, vs, z.S), s, t}
	case "iface":
		return Term{fmt.Sprintf("nil.%s", s), s, t}
	case "opaque", "tparam":
		ss.declare(&sortInfo{Name: Sort("zero$" + string(s)), Kind: "const", Decl: fmt.Sprintf("(declare-const zero.%s %s)", s, s)})
		return Term{fmt.Sprintf("zero.%s", s), s, t}
	}
	panic("zero: unhandled kind " + si.Kind)
}

// integer range of a Go integer type (nil,nil when unbounded / not integer)
func intRange(t types.Type) (lo, hi *big.Int) {
	b, ok := types.Unalias(t).Underlying().(*types.Basic)
	if !ok || b.Info()&types.IsInteger == 0 {
		return nil, nil
	}
	bits := 64
	signed := true
	switch b.Kind() {
	case types.Int8:
		bits = 8
	case types.Int16:
		bits = 16
	case types.Int32:
		bits = 32
	case types.Int64, types.Int:
		bits = 64
	case types.Uint8:
		bits, signed = 8, false
	case types.Uint16:
		bits, signed = 16, false
	case types.Uint32:
		bits, signed = 32, false
	case types.Uint64, types.Uint, types.Uintptr:
		bits, signed = 64, false
	case types.UntypedInt, types.UntypedRune:
		return nil, nil
	}
	one := big.NewInt(1)
	if signed {
		hi = new(big.Int).Sub(new(big.Int).Lsh(one, uint(bits-1)), one)
		lo = new(big.Int).Neg(new(big.Int).Lsh(one, uint(bits-1)))
	} else {
		lo = big.NewInt(0)
		hi = new(big.Int).Sub(new(big.Int).Lsh(one, uint(bits)), one)
	}
	return
}

func inRange(x Term, t types.Type) Term {
	lo, hi := intRange(t)
	if lo == nil {
		return tBool(true)
	}
	return Term{fmt.Sprintf("(and (<= %s %s) (<= %s %s))", intLit(lo), x.S, x.S, intLit(hi)), SBool, nil}
}

func wrapTo(x Term, t types.Type) Term {
	lo, hi := intRange(t)
	if lo == nil {
		return x
	}
	size := new(big.Int).Add(new(big.Int).Sub(hi, lo), big.NewInt(1))
	// lo + ((x - lo) mod size)
	s := fmt.Sprintf("(+ %s (mod (- %s %s) %s))", intLit(lo), x.S, intLit(lo), size.String())
	return Term{s, SInt, t}
}

const prelude = `
(define-fun tdiv ((a Int) (b Int)) Int (ite (>= a 0) (ite (> b 0) (div a b) (- (div a (- b)))) (ite (> b 0) (- (div (- a) b)) (div (- a) (- b)))))
(define-fun trem ((a Int) (b Int)) Int (- a (* b (tdiv a b))))
(declare-sort Str 0)
(declare-fun gs.len (Str) Int)
(declare-fun gs.at (Str Int) Int)
(declare-fun gs.sub (Str Int Int) Str)
(declare-fun gs.cat (Str Str) Str)
(assert (forall ((s Str)) (! (and (>= (gs.len s) 0) (<= (gs.len s) 4611686018427387904)) :pattern ((gs.len s)))))
(assert (forall ((s Str) (i Int)) (! (and (<= 0 (gs.at s i)) (< (gs.at s i) 256)) :pattern ((gs.at s i)))))
(assert (forall ((s Str) (i Int) (j Int)) (! (=> (and (<= 0 i) (<= i j) (<= j (gs.len s))) (= (gs.len (gs.sub s i j)) (- j i))) :pattern ((gs.sub s i j)))))
(assert (forall ((s Str) (i Int) (j Int) (k Int)) (! (=> (and (<= 0 i) (<= i j) (<= j (gs.len s)) (<= 0 k) (< k (- j i))) (= (gs.at (gs.sub s i j) k) (gs.at s (+ i k)))) :pattern ((gs.at (gs.sub s i j) k)))))
(assert (forall ((a Str) (b Str)) (! (= (gs.len (gs.cat a b)) (+ (gs.len a) (gs.len b))) :pattern ((gs.cat a b)))))
(assert (forall ((a Str) (b Str) (k Int)) (! (= (gs.at (gs.cat a b) k) (ite (< k (gs.len a)) (gs.at a k) (gs.at b (- k (gs.len a))))) :pattern ((gs.at (gs.cat a b) k)))))
(declare-sort Err 0)
(declare-const err.nil Err)
(declare-fun err.is (Err Err) Bool)
(declare-fun err.msg (Err) Str)
(assert (forall ((e Err)) (! (err.is e e) :pattern ((err.is e e)))))
(assert (forall ((e Err)) (! (=> (not (= e err.nil)) (not (err.is err.nil e))) :pattern ((err.is err.nil e)))))
`

// integerConstraint: "signed"/"unsigned"/"integer" when every type in the
// type set of the constraint is an integer type.
func integerConstraint(tp *types.TypeParam) string {
	iface, ok := tp.Constraint().Underlying().(*types.Interface)
	if !ok {
		return ""
	}
	allSigned, allUnsigned, any := true, true, false
	var walk func(t types.Type) bool
	walk = func(t types.Type) bool {
		switch x := t.(type) {
		case *types.Union:
			for i := 0; i < x.Len(); i++ {
				if !walk(x.Term(i).Type()) {
					return false
				}
			}
			return true
		case *types.Basic:
			if x.Info()&types.IsInteger == 0 {
				return false
			}
			any = true
			if x.Info()&types.IsUnsigned != 0 {
				allSigned = false
			} else {
				allUnsigned = false
			}
			return true
		case *types.Interface:
			for i := 0; i < x.NumEmbeddeds(); i++ {
				if !walk(x.EmbeddedType(i)) {
					return false
				}
			}
			return x.NumEmbeddeds() > 0 && x.NumMethods() == 0
		case *types.Named:
			return walk(x.Underlying())
		case *types.Alias:
			return walk(types.Unalias(x))
		}
		return false
	}
	if !walk(iface) || !any {
		return ""
	}
	if allSigned {
		return "signed"
	}
	if allUnsigned {
		return "unsigned"
	}
	return "integer"
}

// gs.lt: the byte-wise order on strings, a strict total order.
const strLtDecl = `(declare-fun gs.lt (Str Str) Bool)
(assert (forall ((a Str)) (! (not (gs.lt a a)) :pattern ((gs.lt a a)))))
(assert (forall ((a Str) (b Str)) (! (=> (gs.lt a b) (not (gs.lt b a))) :pattern ((gs.lt a b)))))
(assert (forall ((a Str) (b Str) (c Str)) (! (=> (and (gs.lt a b) (gs.lt b c)) (gs.lt a c)) :pattern ((gs.lt a b) (gs.lt b c)))))
(assert (forall ((a Str) (b Str)) (! (or (= a b) (gs.lt a b) (gs.lt b a)) :pattern ((gs.lt a b)))))`

// substType applies the current type-parameter substitution to a type, so that
// the Go types recorded in sort descriptions (fields, elements, keys) do not
// mention type parameters that are out of scope when they are used later.
func (ss *Sorts) substType(t types.Type) types.Type {
	if len(ss.tparams) == 0 || t == nil {
		return t
	}
	switch tt := t.(type) {
	case *types.TypeParam:
		if a, ok := ss.tparams[tt.Obj().Name()]; ok {
			return a
		}
	case *types.Pointer:
		if e := ss.substType(tt.Elem()); e != tt.Elem() {
			return types.NewPointer(e)
		}
	case *types.Slice:
		if e := ss.substType(tt.Elem()); e != tt.Elem() {
			return types.NewSlice(e)
		}
	case *types.Array:
		if e := ss.substType(tt.Elem()); e != tt.Elem() {
			return types.NewArray(e, tt.Len())
		}
	case *types.Map:
		k, v := ss.substType(tt.Key()), ss.substType(tt.Elem())
		if k != tt.Key() || v != tt.Elem() {
			return types.NewMap(k, v)
		}
	case *types.Named:
		if ta := tt.TypeArgs(); ta != nil && ta.Len() > 0 {
			changed := false
			var args []types.Type
			for i := 0; i < ta.Len(); i++ {
				a := ss.substType(ta.At(i))
				if a != ta.At(i) {
					changed = true
				}
				args = append(args, a)
			}
			if changed {
				if inst, err := types.Instantiate(nil, tt.Origin(), args, false); err == nil {
					return inst
				}
			}
		}
	}
	return t
}
