package main

// Discharging obligations with z3 5.1 (z3-new), z3 4.8.12 and cvc5.

import (
	"bytes"
	"context"
	"fmt"
	"os"
	"os/exec"
	"path/filepath"
	"strings"
	"sync"
	"sync/atomic"
	"time"
)

type solverSpec struct {
	name string
	args func(file string, timeoutMs int) []string
}

var solvers = []solverSpec{
	{"z3-5.1.0", func(f string, ms int) []string { return []string{"z3-new", fmt.Sprintf("-t:%d", ms), f} }},
	{"z3-4.8.12", func(f string, ms int) []string { return []string{"z3", fmt.Sprintf("-t:%d", ms), f} }},
	{"cvc5-1.0.3", func(f string, ms int) []string {
		return []string{"cvc5", fmt.Sprintf("--tlimit=%d", ms), "--produce-models", f}
	}},
}

type solveResult struct {
	verdict string // unsat sat unknown timeout error
	solver  string
	millis  int64
	output  string
}

func runSolver(sp solverSpec, file string, timeoutMs int) solveResult {
	args := sp.args(file, timeoutMs)
	ctx, cancel := context.WithTimeout(context.Background(), time.Duration(timeoutMs+3000)*time.Millisecond)
	defer cancel()
	cmd := exec.CommandContext(ctx, args[0], args[1:]...)
	var out bytes.Buffer
	cmd.Stdout = &out
	cmd.Stderr = &out
	start := time.Now()
	_ = cmd.Run()
	ms := time.Since(start).Milliseconds()
	text := out.String()
	verdict := "error"
	for _, ln := range strings.Split(text, "\n") {
		ln = strings.TrimSpace(ln)
		switch ln {
		case "unsat", "sat", "unknown":
			verdict = ln
		case "timeout":
			verdict = "timeout"
		}
		if verdict != "error" {
			break
		}
	}
	if ctx.Err() != nil && verdict == "error" {
		verdict = "timeout"
	}
	if verdict == "error" && strings.Contains(text, "interrupted by timeout") {
		verdict = "timeout"
	}
	return solveResult{verdict, sp.name, ms, text}
}

// secondPass is set once the first pass over all obligations is over: the
// long retries do not reseed (three more 80 s runs per undecided obligation
// would only delay the report of a real failure).
var secondPass bool

// expectedOpen: names of obligations with a recorded finding (KNOWN_FINDINGS.txt).
var expectedOpen = map[string]bool{}

// discharge decides one obligation. Stage 1: z3-new alone; stage 2: the
// other two solvers in parallel. `unsat` from any solver discharges.
func discharge(ob *Obligation, query string, dir string, timeoutMs int, all bool) {
	file := filepath.Join(dir, sanitize(ob.Name)+".smt2")
	if len(file) > 200 {
		file = file[:180] + fmt.Sprintf("_%x.smt2", hashString(ob.Name))
	}
	if err := os.WriteFile(file, []byte(query), 0o644); err != nil {
		ob.Verdict = "error"
		ob.Model = err.Error()
		return
	}
	ob.Query = file
	var results []solveResult
	// first attempt: the query without the axioms of implementer kinds the
	// goal does not reach; only `unsat` is believed from it
	if pq := pruneKinds(query); len(pq) < len(query) {
		pfile := strings.TrimSuffix(file, ".smt2") + ".pruned.smt2"
		if os.WriteFile(pfile, []byte(pq), 0o644) == nil {
			pt := timeoutMs * 3 / 10
			if pt < 3000 {
				pt = timeoutMs
			}
			pr := runSolver(solvers[0], pfile, pt)
			if pr.verdict == "unsat" {
				ob.Verdict = "unsat"
				ob.Millis = pr.millis
				ob.Solver = fmt.Sprintf("%s [kind-pruned query: %s=unsat(%dms)]", pr.solver, pr.solver, pr.millis)
				ob.Query = pfile
				if all {
					// thorough tier: the other solvers must not contradict the proof
					// (a pruned `unsat` is a proof: only hypotheses were dropped)
					for i := 1; i <= 2; i++ {
						cr := runSolver(solvers[i], pfile, 10000)
						ob.Solver += fmt.Sprintf(" %s=%s(%dms)", cr.solver, cr.verdict, cr.millis)
						if cr.verdict == "sat" {
							ob.Verdict = "conflict"
							ob.Model = cr.output
						}
					}
				}
				return
			}
			pr.solver += "/pruned"
			results = append(results, pr)
		}
	}
	r := runSolver(solvers[0], file, timeoutMs)
	results = append(results, r)
	// `unknown` on a quantified goal depends on the instantiation order: two
	// more attempts with other random seeds before the other solvers are asked
	// (an obligation still counts only on `unsat`)
	for seed := 1; seed <= 2 && r.verdict == "unknown" && !secondPass; seed++ {
		sd := seed
		reseeded := solverSpec{fmt.Sprintf("z3-5.1.0/seed%d", sd), func(f string, ms int) []string {
			return []string{"z3-new", fmt.Sprintf("-t:%d", ms), fmt.Sprintf("smt.random_seed=%d", sd), f}
		}}
		r = runSolver(reseeded, file, timeoutMs)
		results = append(results, r)
	}
	if r.verdict != "unsat" || all {
		if !(r.verdict == "sat" && !all) {
			var wg sync.WaitGroup
			rs := make([]solveResult, 2)
			t2 := timeoutMs
			if r.verdict == "unsat" && t2 > 10000 {
				// cross-check of an obligation that is already discharged (thorough
				// tier): the other solvers only have to not contradict it
				t2 = 10000
			}
			for i := 1; i <= 2; i++ {
				wg.Add(1)
				go func(i int) {
					defer wg.Done()
					rs[i-1] = runSolver(solvers[i], file, t2)
				}(i)
			}
			wg.Wait()
			results = append(results, rs...)
		}
	}
	ob.Verdict = "unknown"
	var total int64
	var detail []string
	for _, r := range results {
		total += r.millis
		detail = append(detail, fmt.Sprintf("%s=%s(%dms)", r.solver, r.verdict, r.millis))
	}
	ob.Millis = total
	ob.Solver = strings.Join(detail, " ")
	for _, r := range results {
		if r.verdict == "unsat" {
			ob.Verdict = "unsat"
			ob.Solver = r.solver + " [" + strings.Join(detail, " ") + "]"
			ob.Millis = r.millis
		}
	}
	for _, r := range results {
		if r.verdict == "sat" {
			if ob.Verdict == "unsat" {
				ob.Verdict = "conflict"
			} else {
				ob.Verdict = "sat"
			}
			ob.Model = r.output
			break
		}
	}
	if ob.Verdict == "unknown" {
		for _, r := range results {
			if r.verdict == "error" {
				ob.Model += r.solver + ": " + firstLines(r.output, 5) + "\n"
			}
		}
		allTimeout := true
		for _, r := range results {
			if r.verdict != "timeout" {
				allTimeout = false
			}
		}
		if allTimeout {
			ob.Verdict = "timeout"
		}
	}
}

func firstLines(s string, n int) string {
	lines := strings.Split(s, "\n")
	if len(lines) > n {
		lines = lines[:n]
	}
	return strings.Join(lines, "\n")
}

func hashString(s string) uint32 {
	var h uint32 = 2166136261
	for i := 0; i < len(s); i++ {
		h ^= uint32(s[i])
		h *= 16777619
	}
	return h
}

// dischargeAll runs the obligations of several functions in parallel.
func dischargeAll(results []*FuncResult, dir string, timeoutMs int, all bool, workers int) {
	type job struct {
		ob *Obligation
		vc *VC
	}
	var jobs []job
	for _, r := range results {
		for _, ob := range r.Obls {
			jobs = append(jobs, job{ob, r.vc})
		}
	}
	ch := make(chan job)
	var wg sync.WaitGroup
	for i := 0; i < workers; i++ {
		wg.Add(1)
		go func() {
			defer wg.Done()
			for j := range ch {
				if j.ob.Verdict != "" {
					continue
				}
				// trivial obligations are decided syntactically
				if j.ob.Expect == "unsat" && (j.ob.Cond.S == "true" || j.ob.PC.S == "false") {
					j.ob.Verdict = "unsat"
					j.ob.Solver = "syntactic"
					continue
				}
				q := j.vc.buildQuery(j.ob, true)
				if j.ob.Expect == "sat" {
					// vacuity guards only need "not unsat": one solver, short limit
					file := filepath.Join(dir, sanitize(j.ob.Name)+".smt2")
					os.WriteFile(file, []byte(q), 0o644)
					j.ob.Query = file
					r := runSolver(solvers[0], file, 1500)
					j.ob.Verdict, j.ob.Millis = r.verdict, r.millis
					j.ob.Solver = fmt.Sprintf("%s=%s(%dms)", r.solver, r.verdict, r.millis)
					continue
				}
				discharge(j.ob, q, dir, timeoutMs, all)
			}
		}()
	}
	for _, j := range jobs {
		ch <- j
	}
	close(ch)
	wg.Wait()

	// Second pass. `unknown`/`timeout` is not an answer, and on a loaded machine
	// (other checks, test suites running beside this one) a query that needs
	// 10 s of CPU does not finish inside a 20 s wall-clock limit. Every
	// obligation that is undecided after the first pass is tried again with
	// four times the limit and half the workers, inside a wall-clock budget;
	// only what is still undecided then is reported.
	var again []job
	for _, j := range jobs {
		if j.ob.Expect == "unsat" && (j.ob.Verdict == "unknown" || j.ob.Verdict == "timeout") && !expectedOpen[j.ob.Name] {
			again = append(again, j)
		}
	}
	if len(again) == 0 {
		return
	}
	budget := 8 * time.Duration(timeoutMs) * time.Millisecond
	if budget < 4*time.Minute {
		budget = 4 * time.Minute
	}
	deadline := time.Now().Add(budget)
	secondPass = true
	w2 := workers / 2
	if w2 < 1 {
		w2 = 1
	}
	ch2 := make(chan job)
	var wg2 sync.WaitGroup
	// once three obligations have stayed undecided with the long limit the
	// verdict of the run is settled (it fails, and not because of load): the
	// rest keep their first-pass answer instead of costing minutes each
	var stillOpen int32
	for i := 0; i < w2; i++ {
		wg2.Add(1)
		go func() {
			defer wg2.Done()
			for j := range ch2 {
				if time.Now().After(deadline) || atomic.LoadInt32(&stillOpen) >= 3 {
					continue
				}
				first := j.ob.Solver
				firstMs := j.ob.Millis
				q := j.vc.buildQuery(j.ob, true)
				j.ob.Model = ""
				discharge(j.ob, q, dir, timeoutMs*4, false)
				j.ob.Millis += firstMs
				j.ob.Solver = j.ob.Solver + " {second pass, limit x4; first pass: " + first + "}"
				if j.ob.Verdict != "unsat" {
					atomic.AddInt32(&stillOpen, 1)
				}
			}
		}()
	}
	for _, j := range again {
		ch2 <- j
	}
	close(ch2)
	wg2.Wait()
}
