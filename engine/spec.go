package main

// Translation of contract expressions to SMT terms.

import (
	"fmt"
	"go/constant"
	"go/token"
	"go/types"
	"math/big"
	"strings"
)

type SpecEnv struct {
	vc    *VC
	vars  map[string]Value
	old   map[string]Value
	bound map[string]Term
	pkg   string
	st    *State
	pos   token.Pos
	fr    *frame
	inOld bool
	oldSt *State // state at loop entry (for old() in invariants)
}

func (e *SpecEnv) child() *SpecEnv {
	n := *e
	n.bound = map[string]Term{}
	for k, v := range e.bound {
		n.bound[k] = v
	}
	return &n
}

// localEnv: names resolve to the local variables visible at pos in the
// current frame, then to parameter entry values.
func (vc *VC) localEnv(st *State, pos token.Pos) *SpecEnv {
	fr := vc.cur()
	env := &SpecEnv{vc: vc, vars: map[string]Value{}, old: map[string]Value{}, pkg: fr.pkgPath, st: st, pos: pos, fr: fr}
	if fr == vc.frames[0] {
		for k, v := range vc.entry {
			env.old[k] = v
		}
	}
	for k, v := range fr.ghosts {
		env.vars[k] = v
	}
	return env
}

func (vc *VC) lookupLocal(name string, pos token.Pos) types.Object {
	fr := vc.cur()
	var pkg *types.Package
	if p := vc.w.pkgs[fr.pkgPath]; p != nil {
		pkg = p.Types
	}
	if pkg == nil {
		return nil
	}
	sc := pkg.Scope().Innermost(pos)
	if sc == nil {
		return nil
	}
	// loop-scoped variables (declared by the loop statement itself) are
	// visible inside the loop: search inner scopes that start at pos too
	// the scope opened by the statement at pos itself (loop variables declared
	// in a for/range header are visible to the loop's invariants)
	if sc.Pos() == pos {
		if o := sc.Lookup(name); o != nil {
			return o
		}
	}
	for i := 0; i < sc.NumChildren(); i++ {
		c := sc.Child(i)
		if c.Pos() <= pos && pos <= c.End() && c.Pos() >= pos {
			if o := c.Lookup(name); o != nil {
				return o
			}
		}
	}
	_, obj := sc.LookupParent(name, pos)
	if obj == nil {
		for i := 0; i < sc.NumChildren(); i++ {
			c := sc.Child(i)
			if c.Pos() <= pos && pos <= c.End() {
				if o := c.Lookup(name); o != nil {
					return o
				}
			}
		}
	}
	return obj
}

func (env *SpecEnv) lookup(name string) (Value, bool) {
	if v, ok := env.bound[name]; ok {
		return v, true
	}
	if env.inOld {
		// inside a loop invariant old(x) is x at loop entry
		if env.oldSt != nil {
			if obj := env.vc.lookupLocal(name, env.pos); obj != nil {
				if v, ok := env.oldSt.vars[obj]; ok {
					return v, true
				}
			}
		}
		if v, ok := env.old[name]; ok {
			return v, true
		}
	}
	if v, ok := env.vars[name]; ok {
		return v, true
	}
	if env.st != nil {
		// innermost visible local variable with a value in the state
		if obj := env.vc.lookupLocal(name, env.pos); obj != nil {
			if v, ok := env.st.vars[obj]; ok {
				return v, true
			}
		}
		// loop variables declared by the loop header are in a child scope
		for o, v := range env.st.vars {
			if o.Name() == name && o.Pos() != token.NoPos && env.fr != nil && env.fr.fi != nil &&
				o.Pos() >= env.fr.fi.Decl.Pos() && o.Pos() <= env.fr.fi.Decl.End() {
				if sc := o.Parent(); sc != nil && sc.Pos() <= env.pos+1 && env.pos <= sc.End() {
					return v, true
				}
			}
		}
	}
	if v, ok := env.old[name]; ok {
		return v, true
	}
	return nil, false
}

func (vc *VC) specBool(e CExpr, env *SpecEnv) Term {
	t := vc.spec(e, env)
	if t.Sort != SBool {
		vc.unsupportedf(token.NoPos, "contract expression is not boolean (sort %s): %s", t.Sort, t.S)
		return tBool(true)
	}
	return t
}

func (vc *VC) specFail(format string, args ...interface{}) Term {
	vc.unsupportedf(token.NoPos, "contract: "+format, args...)
	return Term{"true", SBool, nil}
}

func (vc *VC) spec(e CExpr, env *SpecEnv) Term {
	if env.vc == nil {
		env.vc = vc
	}
	switch x := e.(type) {
	case CInt:
		v, ok := new(big.Int).SetString(x.V, 0)
		if !ok {
			return vc.specFail("bad integer %s", x.V)
		}
		return Term{intLit(v), SInt, nil}
	case CStr:
		return vc.w.strLit(x.V, nil)
	case CBool:
		return tBool(x.V)
	case CNil:
		return Term{"nil", "Nil", nil}
	case CIdent:
		return vc.specIdent(x.Name, env)
	case CUnary:
		v := vc.spec(x.X, env)
		if x.Op == "!" {
			return tNot(v)
		}
		if x.Op == "*" {
			if si := vc.ss.info[v.Sort]; si != nil && si.Kind == "ptr" {
				return Term{fmt.Sprintf("(val.%s %s)", v.Sort, v.S), vc.ss.sortOf(si.Elem), si.Elem}
			}
			return vc.specFail("* applied to a non-pointer (%s)", v.Sort)
		}
		return Term{fmt.Sprintf("(- %s)", v.S), SInt, nil}
	case CBinary:
		return vc.specBinary(x, env)
	case CCond:
		c := vc.spec(x.C, env)
		a := vc.spec(x.A, env)
		b := vc.spec(x.B, env)
		a, b = vc.unifyNil(a, b)
		return tIte(c, a, b)
	case COld:
		n := env.child()
		n.inOld = true
		return vc.spec(x.X, n)
	case CLet:
		v := vc.spec(x.Val, env)
		n := env.child()
		n.bound[x.Name] = v
		return vc.spec(x.Body, n)
	case CQuant:
		n := env.child()
		var decls []string
		var facts []Term
		for _, p := range x.Vars {
			s, gt := vc.specSort(p.Type, env.pkg)
			name := p.Name + "?"
			tm := Term{name, s, gt}
			n.bound[p.Name] = tm
			decls = append(decls, fmt.Sprintf("(%s %s)", name, s))
			if gt != nil {
				if f := vc.rangeFacts(tm, gt, 1); f.S != "true" {
					facts = append(facts, f)
				}
			}
		}
		body := vc.specBool(x.Body, n)
		var pats []string
		for _, p := range x.Pats {
			var ps []string
			for _, pe := range p {
				ps = append(ps, vc.spec(pe, n).S)
			}
			pats = append(pats, ":pattern ("+strings.Join(ps, " ")+")")
		}
		if x.Forall {
			body = tImp(tAnd(facts...), body)
		} else {
			body = tAnd(append(facts, body)...)
		}
		q := "exists"
		if x.Forall {
			q = "forall"
		}
		bs := body.S
		if len(pats) > 0 {
			bs = fmt.Sprintf("(! %s %s)", body.S, strings.Join(pats, " "))
		}
		return Term{fmt.Sprintf("(%s (%s) %s)", q, strings.Join(decls, " "), bs), SBool, nil}
	case CSel:
		return vc.specSel(x, env)
	case CIndex:
		b := vc.spec(x.X, env)
		i := vc.spec(x.I, env)
		return vc.specIndex(b, i)
	case CSlice:
		b := vc.spec(x.X, env)
		lo := tInt(0)
		if x.Lo != nil {
			lo = vc.spec(x.Lo, env)
		}
		if b.Sort == SStr {
			hi := Term{fmt.Sprintf("(gs.len %s)", b.S), SInt, nil}
			if x.Hi != nil {
				hi = vc.spec(x.Hi, env)
			}
			return Term{fmt.Sprintf("(gs.sub %s %s %s)", b.S, lo.S, hi.S), SStr, b.T}
		}
		return vc.specFail("slice expression on %s", b.Sort)
	case CIs:
		v := vc.spec(x.X, env)
		t, err := vc.w.resolveTypeText(env.pkg, x.Type)
		if err != nil {
			return vc.specFail("%v", err)
		}
		if si := vc.ss.info[v.Sort]; si == nil || si.Kind != "iface" {
			return vc.specFail("`is` on non-interface sort %s", v.Sort)
		}
		return vc.ss.hasTag(v.Sort, v, t)
	case CAssert:
		v := vc.spec(x.X, env)
		t, err := vc.w.resolveTypeText(env.pkg, x.Type)
		if err != nil {
			return vc.specFail("%v", err)
		}
		if si := vc.ss.info[v.Sort]; si == nil || si.Kind != "iface" {
			return vc.specFail("type assertion on non-interface sort %s", v.Sort)
		}
		return vc.ss.proj(v.Sort, v, t)
	case CCall:
		return vc.specCall(x, env)
	}
	return vc.specFail("unhandled contract expression %T", e)
}

// specSort resolves a type written in a contract to an SMT sort.
func (vc *VC) specSort(text, pkg string) (Sort, types.Type) {
	if strings.HasPrefix(text, "$") {
		return Sort(strings.ReplaceAll(text[1:], "$", " ")), nil
	}
	switch text {
	case "int":
		return SInt, nil
	case "bool":
		return SBool, types.Typ[types.Bool]
	case "string":
		return SStr, types.Typ[types.String]
	case "error":
		return SErr, nil
	}
	// sorts declared with `sort`
	for _, sd := range vc.w.cs.Sorts {
		if sd.Name == text {
			vc.ss.declare(&sortInfo{Name: Sort(text), Kind: "opaque", Decl: fmt.Sprintf("(declare-sort %s 0)", text)})
			return Sort(text), nil
		}
	}
	if tp, ok := vc.ss.tparams[text]; ok {
		return vc.ss.sortOf(tp), tp
	}
	// set-of-T shorthand: Set[T]
	if strings.HasPrefix(text, "Set[") && strings.HasSuffix(text, "]") {
		es, _ := vc.specSort(text[4:len(text)-1], pkg)
		return Sort(fmt.Sprintf("(Array %s Bool)", es)), nil
	}
	t, err := vc.w.resolveTypeText(pkg, text)
	if err != nil {
		// generic type parameter of the function under verification
		if vc.fi != nil {
			if sig, ok := vc.fi.Obj.Type().(*types.Signature); ok {
				tps := sig.RecvTypeParams()
				for i := 0; tps != nil && i < tps.Len(); i++ {
					if tps.At(i).Obj().Name() == text {
						return vc.ss.sortOf(tps.At(i)), tps.At(i)
					}
				}
				tps2 := sig.TypeParams()
				for i := 0; tps2 != nil && i < tps2.Len(); i++ {
					if tps2.At(i).Obj().Name() == text {
						return vc.ss.sortOf(tps2.At(i)), tps2.At(i)
					}
				}
			}
		}
		vc.unsupportedf(token.NoPos, "contract: %v", err)
		return SInt, nil
	}
	return vc.ss.sortOf(t), t
}

func (vc *VC) specIdent(name string, env *SpecEnv) Term {
	if v, ok := env.lookup(name); ok {
		if tm, ok := v.(Term); ok {
			return tm
		}
		return vc.specFail("identifier %s is not a term", name)
	}
	// package-level constant or variable of the contract's package
	if p := vc.w.pkgs[env.pkg]; p != nil {
		if obj := p.Types.Scope().Lookup(name); obj != nil {
			return vc.specObj(obj)
		}
	}
	// nullary spec function
	if sf := vc.w.specByName[name]; sf != nil && len(sf.Params) == 0 {
		return vc.applySpec(sf, nil)
	}
	return vc.specFail("unknown identifier %s", name)
}

func (vc *VC) specObj(obj types.Object) Term {
	switch o := obj.(type) {
	case *types.Const:
		if tm, ok := vc.constTerm(o.Val(), o.Type()); ok {
			return tm
		}
	case *types.Var:
		return vc.globalVar(o, token.NoPos)
	}
	return vc.specFail("object %s not usable in contracts", obj.Name())
}

func (vc *VC) unifyNil(a, b Term) (Term, Term) {
	if a.Sort == "Nil" && b.Sort != "Nil" {
		return vc.ss.zeroOfSort(b.Sort, b.T), b
	}
	if b.Sort == "Nil" && a.Sort != "Nil" {
		return a, vc.ss.zeroOfSort(a.Sort, a.T)
	}
	return a, b
}

func (vc *VC) specBinary(x CBinary, env *SpecEnv) Term {
	a := vc.spec(x.X, env)
	b := vc.spec(x.Y, env)
	switch x.Op {
	case "&&":
		return tAnd(a, b)
	case "||":
		return tOr(a, b)
	case "==>":
		return tImp(a, b)
	case "<==>":
		return Term{fmt.Sprintf("(= %s %s)", a.S, b.S), SBool, nil}
	case "==":
		return vc.equal(a, b, a.T, b.T, token.NoPos)
	case "!=":
		return tNot(vc.equal(a, b, a.T, b.T, token.NoPos))
	}
	if a.Sort == SStr && b.Sort == SStr && x.Op == "+" {
		return Term{fmt.Sprintf("(gs.cat %s %s)", a.S, b.S), SStr, types.Typ[types.String]}
	}
	if a.Sort != SInt || b.Sort != SInt {
		return vc.specFail("operator %s on sorts %s, %s", x.Op, a.Sort, b.Sort)
	}
	switch x.Op {
	case "+", "-", "*":
		return Term{fmt.Sprintf("(%s %s %s)", x.Op, a.S, b.S), SInt, nil}
	case "/":
		return Term{fmt.Sprintf("(tdiv %s %s)", a.S, b.S), SInt, nil}
	case "%":
		return Term{fmt.Sprintf("(trem %s %s)", a.S, b.S), SInt, nil}
	case "<", "<=", ">", ">=":
		return Term{fmt.Sprintf("(%s %s %s)", x.Op, a.S, b.S), SBool, nil}
	}
	return vc.specFail("operator %s", x.Op)
}

func (vc *VC) specSel(x CSel, env *SpecEnv) Term {
	// qualified identifier pkg.Name
	if id, ok := x.X.(CIdent); ok {
		if _, isVar := env.lookup(id.Name); !isVar {
			full := vc.w.resolveQualified(env.pkg, id.Name+"."+x.Name)
			if i := strings.LastIndex(full, "."); i > 0 {
				if p := vc.w.pkgs[full[:i]]; p != nil {
					if obj := p.Types.Scope().Lookup(x.Name); obj != nil {
						return vc.specObj(obj)
					}
				}
			}
			// stdlib constants such as math.MaxInt64
			if p := vc.w.pkgs[id.Name]; p != nil {
				if obj := p.Types.Scope().Lookup(x.Name); obj != nil {
					return vc.specObj(obj)
				}
			}
		}
	}
	b := vc.spec(x.X, env)
	return vc.specField(b, x.Name)
}

func (vc *VC) specField(b Term, name string) Term {
	// auto-deref
	if si := vc.ss.info[b.Sort]; si != nil && si.Kind == "ptr" {
		b = Term{fmt.Sprintf("(val.%s %s)", b.Sort, b.S), vc.ss.sortOf(si.Elem), si.Elem}
	}
	if f, ok := vc.ss.field(b, name); ok {
		return f
	}
	// promoted fields through embedded structs
	if si := vc.ss.info[b.Sort]; si != nil && si.Kind == "struct" {
		for _, f := range si.Fields {
			if fs := vc.ss.info[f.Sort]; fs != nil && fs.Kind == "struct" {
				inner := Term{fmt.Sprintf("(%s.%s %s)", b.Sort, f.Name, b.S), f.Sort, f.T}
				for _, g := range fs.Fields {
					if g.Name == name {
						return vc.specField(inner, name)
					}
				}
			}
		}
	}
	// opaque observer
	if si := vc.ss.info[b.Sort]; si != nil && si.Kind == "opaque" && b.T != nil {
		if stt, ok := types.Unalias(b.T).Underlying().(*types.Struct); ok {
			for i := 0; i < stt.NumFields(); i++ {
				if stt.Field(i).Name() == name {
					fs := vc.ss.sortOf(stt.Field(i).Type())
					fn := fmt.Sprintf("fld.%s.%s", b.Sort, name)
					vc.ss.declare(&sortInfo{Name: Sort("fn$" + fn), Kind: "const", Decl: fmt.Sprintf("(declare-fun %s (%s) %s)", fn, b.Sort, fs)})
					return Term{fmt.Sprintf("(%s %s)", fn, b.S), fs, stt.Field(i).Type()}
				}
			}
		}
	}
	return vc.specFail("no field %s on sort %s", name, b.Sort)
}

func (vc *VC) specIndex(b, i Term) Term {
	if b.Sort == SStr {
		return Term{fmt.Sprintf("(gs.at %s %s)", b.S, i.S), SInt, types.Typ[types.Uint8]}
	}
	if si := vc.ss.info[b.Sort]; si != nil {
		switch si.Kind {
		case "slice":
			return Term{fmt.Sprintf("(select (arr.%s %s) %s)", b.Sort, b.S, i.S), vc.ss.sortOf(si.Elem), si.Elem}
		case "map":
			return Term{fmt.Sprintf("(select (get.%s %s) %s)", b.Sort, b.S, i.S), vc.ss.sortOf(si.Elem), si.Elem}
		case "ptr":
			return vc.specIndex(Term{fmt.Sprintf("(val.%s %s)", b.Sort, b.S), vc.ss.sortOf(si.Elem), si.Elem}, i)
		}
	}
	if strings.HasPrefix(string(b.Sort), "(Array ") {
		// (Array K V): result sort is the last component
		inner := strings.TrimSuffix(strings.TrimPrefix(string(b.Sort), "(Array "), ")")
		// split K and V at top level
		depth := 0
		for k := 0; k < len(inner); k++ {
			switch inner[k] {
			case '(':
				depth++
			case ')':
				depth--
			case ' ':
				if depth == 0 {
					vs := Sort(inner[k+1:])
					var et types.Type
					if at, ok := b.T.(*types.Array); ok {
						et = at.Elem()
					}
					return Term{fmt.Sprintf("(select %s %s)", b.S, i.S), vs, et}
				}
			}
		}
	}
	return vc.specFail("index on sort %s", b.Sort)
}

func (vc *VC) specCall(x CCall, env *SpecEnv) Term {
	// method-style call on a term: x.f(args)
	if x.Recv != nil {
		if id, ok := x.Recv.(CIdent); ok {
			if _, isVar := env.lookup(id.Name); !isVar {
				// qualified function: pkg.f — only spec functions are global; try by bare name
				name := x.Fn[strings.LastIndex(x.Fn, ".")+1:]
				if sf := vc.w.specByName[name]; sf != nil {
					return vc.applySpecArgs(sf, x.Args, env)
				}
				if i := strings.Index(x.Fn, "#"); i > 0 {
					if t, ok := vc.specPureFunc(x.Fn[:i], x.Fn[i+1:], x.Args, env); ok {
						return t
					}
				}
				if t, err := vc.w.resolveTypeText(env.pkg, x.Fn); err == nil && len(x.Args) == 1 {
					return vc.specConv(t, vc.spec(x.Args[0], env))
				}
				return vc.specFail("unknown qualified function %s", x.Fn)
			}
		}
		recv := vc.spec(x.Recv, env)
		mname := x.Fn
		if _, ok := x.Recv.(CIdent); ok {
			mname = mname[strings.LastIndex(mname, ".")+1:]
		}
		return vc.specMethod(recv, mname, x.Args, env)
	}
	// pure Go function of the repository: F#k(args) is result k of F
	if i := strings.Index(x.Fn, "#"); i > 0 {
		if t, ok := vc.specPureFunc(x.Fn[:i], x.Fn[i+1:], x.Args, env); ok {
			return t
		}
	}
	args := func() []Term {
		var out []Term
		for _, a := range x.Args {
			out = append(out, vc.spec(a, env))
		}
		return out
	}
	switch x.Fn {
	case "entry":
		// entry(e): e in the state at function entry (inside a loop invariant
		// old(e) is e at loop entry)
		if len(x.Args) == 1 {
			n := env.child()
			n.inOld = true
			n.oldSt = nil
			return vc.spec(x.Args[0], n)
		}
	case "len":
		a := args()
		return vc.lenOf(a[0], a[0].T, false, token.NoPos)
	case "isnil":
		a := args()
		return vc.isNil(a[0], token.NoPos)
	case "has":
		a := args()
		if si := vc.ss.info[a[0].Sort]; si != nil && si.Kind == "map" {
			return Term{fmt.Sprintf("(select (has.%s %s) %s)", a[0].Sort, a[0].S, a[1].S), SBool, nil}
		}
		if strings.HasPrefix(string(a[0].Sort), "(Array ") {
			return Term{fmt.Sprintf("(select %s %s)", a[0].S, a[1].S), SBool, nil}
		}
		return vc.specFail("has on sort %s", a[0].Sort)
	case "errIs":
		a := args()
		return Term{fmt.Sprintf("(err.is %s %s)", a[0].S, a[1].S), SBool, nil}
	case "tdiv", "trem", "div", "mod":
		a := args()
		return Term{fmt.Sprintf("(%s %s %s)", x.Fn, a[0].S, a[1].S), SInt, nil}
	case "abs":
		a := args()
		return Term{fmt.Sprintf("(ite (>= %s 0) %s (- %s))", a[0].S, a[0].S, a[0].S), SInt, nil}
	case "pow10":
		a := args()
		vc.ss.declare(&sortInfo{Name: "fn$pow10", Kind: "const", Decl: pow10Decl})
		return Term{fmt.Sprintf("(pow10 %s)", a[0].S), SInt, nil}
	case "inRange":
		// inRange(x, "int64")
		v := vc.spec(x.Args[0], env)
		if s, ok := x.Args[1].(CStr); ok {
			for _, b := range types.Typ {
				if b.Name() == s.V {
					return inRange(v, b)
				}
			}
		}
		return vc.specFail("inRange: bad type")
	case "store":
		a := args()
		return Term{fmt.Sprintf("(store %s %s %s)", a[0].S, a[1].S, a[2].S), a[0].Sort, a[0].T}
	case "sameType":
		// same dynamic type of two interface values
		a := args()
		if si := vc.ss.info[a[0].Sort]; si == nil || si.Kind != "iface" || a[1].Sort != a[0].Sort {
			return vc.specFail("sameType needs two values of the same interface sort")
		}
		return Term{fmt.Sprintf("(= (tag.%s %s) (tag.%s %s))", a[0].Sort, a[0].S, a[0].Sort, a[1].S), SBool, nil}
	case "less":
		// the natural order of the element type: < on integers, byte-wise order on strings
		a := args()
		if a[0].Sort == SInt && a[1].Sort == SInt {
			return Term{fmt.Sprintf("(< %s %s)", a[0].S, a[1].S), SBool, nil}
		}
		if a[0].Sort == SStr && a[1].Sort == SStr {
			vc.ss.declare(&sortInfo{Name: "str$lt", Kind: "const", Decl: strLtDecl})
			return Term{fmt.Sprintf("(gs.lt %s %s)", a[0].S, a[1].S), SBool, nil}
		}
		// other ordered element types: an uninterpreted strict order per sort
		fn := "lt." + sanitize(string(a[0].Sort))
		vc.ss.declare(&sortInfo{Name: Sort("fn$" + fn), Kind: "const", Decl: fmt.Sprintf("(declare-fun %s (%s %s) Bool)", fn, a[0].Sort, a[0].Sort)})
		return Term{fmt.Sprintf("(%s %s %s)", fn, a[0].S, a[1].S), SBool, nil}
	case "strLess":
		a := args()
		vc.ss.declare(&sortInfo{Name: "str$lt", Kind: "const", Decl: strLtDecl})
		return Term{fmt.Sprintf("(gs.lt %s %s)", a[0].S, a[1].S), SBool, nil}
	case "fnvInit":
		// the abstract state of a fresh fnv.New64() hasher (see hasher.go)
		vc.declareHasher()
		return Term{"fnv.init", sHState, nil}
	case "fnvStr", "fnvU64":
		a := args()
		vc.declareHasher()
		fn := "fnv.writeStr"
		if x.Fn == "fnvU64" {
			fn = "fnv.writeU64"
		}
		return Term{fmt.Sprintf("(%s %s %s)", fn, a[0].S, a[1].S), sHState, nil}
	case "fnvSum":
		a := args()
		vc.declareHasher()
		return Term{fmt.Sprintf("(fnv.sum %s)", a[0].S), SInt, nil}
	case "sprintf":
		if f, ok := x.Args[0].(CStr); ok {
			var as []Term
			for _, a := range x.Args[1:] {
				as = append(as, vc.spec(a, env))
			}
			return vc.fmtFn(f.V, as)
		}
		return vc.specFail("sprintf needs a literal format")
	case "emptymap":
		// emptymap(T): the empty, non-nil map of map type T
		if len(x.Args) == 1 {
			tname := ""
			switch tx := x.Args[0].(type) {
			case CIdent:
				tname = tx.Name
			case CSel:
				if id, ok := tx.X.(CIdent); ok {
					tname = id.Name + "." + tx.Name
				}
			}
			if t, err := vc.w.resolveTypeText(env.pkg, tname); err == nil {
				if mt, ok := vc.underlying(t).(*types.Map); ok {
					m := vc.emptyMap(vc.ss.sortOf(t), mt)
					m.T = t
					return m
				}
			}
		}
		return vc.specFail("emptymap needs a map type name")
	case "mkstruct":
		// mkstruct(T, f1, f2, ...): struct value with the fields in declaration order
		if len(x.Args) == 0 {
			return vc.specFail("mkstruct needs a type")
		}
		tname := ""
		switch tx := x.Args[0].(type) {
		case CIdent:
			tname = tx.Name
		case CSel:
			if id, ok := tx.X.(CIdent); ok {
				tname = id.Name + "." + tx.Name
			}
		}
		t, err := vc.w.resolveTypeText(env.pkg, tname)
		if err != nil {
			return vc.specFail("mkstruct: %v", err)
		}
		ts := vc.ss.sortOf(t)
		si := vc.ss.info[ts]
		if si == nil || si.Kind != "struct" || len(si.Fields) != len(x.Args)-1 {
			return vc.specFail("mkstruct(%s): not a struct with %d fields", tname, len(x.Args)-1)
		}
		var parts []string
		for i, f := range si.Fields {
			v := vc.spec(x.Args[i+1], env)
			v = vc.convertTo(v, v.T, f.T, token.NoPos)
			parts = append(parts, v.S)
		}
		if len(parts) == 0 {
			return Term{"mk." + string(ts), ts, t}
		}
		return Term{fmt.Sprintf("(mk.%s %s)", ts, strings.Join(parts, " ")), ts, t}
	case "inj":
		// inj(v, IfaceType): inject concrete v into interface
		v := vc.spec(x.Args[0], env)
		if id, ok := x.Args[1].(CIdent); ok {
			it, err := vc.w.resolveTypeText(env.pkg, id.Name)
			if err == nil && v.T != nil {
				return vc.ss.inj(vc.ss.sortOf(it), v, v.T)
			}
		}
		if sel, ok := x.Args[1].(CSel); ok {
			if id, ok := sel.X.(CIdent); ok {
				it, err := vc.w.resolveTypeText(env.pkg, id.Name+"."+sel.Name)
				if err == nil && v.T != nil {
					return vc.ss.inj(vc.ss.sortOf(it), v, v.T)
				}
			}
		}
		return vc.specFail("inj: cannot resolve")
	}
	if sf := vc.w.specByName[x.Fn]; sf != nil {
		return vc.applySpecArgs(sf, x.Args, env)
	}
	// conversion-style T(x): Go type name used as a function: concrete -> interface injection or identity
	if t, err := vc.w.resolveTypeText(env.pkg, x.Fn); err == nil && len(x.Args) == 1 {
		return vc.specConv(t, vc.spec(x.Args[0], env))
	}
	return vc.specFail("unknown function %s", x.Fn)
}

// specConv: T(x) in a contract: identity on equal sorts (re-typing), injection
// into an interface, or construction of a one-field struct.
func (vc *VC) specConv(t types.Type, v Term) Term {
	ts := vc.ss.sortOf(t)
	if v.Sort == "Nil" {
		return vc.ss.zeroOfSort(ts, t)
	}
	if ts == v.Sort {
		v.T = t
		return v
	}
	if si := vc.ss.info[ts]; si != nil && si.Kind == "iface" && v.T != nil {
		return vc.ss.inj(ts, v, v.T)
	}
	if si := vc.ss.info[ts]; si != nil && si.Kind == "struct" && len(si.Fields) == 1 && si.Fields[0].Sort == v.Sort {
		return Term{fmt.Sprintf("(mk.%s %s)", ts, v.S), ts, t}
	}
	// struct to struct with identical field lists (type ImplicitlyMarshaledEntityUID EntityUID)
	if si, vi := vc.ss.info[ts], vc.ss.info[v.Sort]; si != nil && vi != nil && si.Kind == "struct" && vi.Kind == "struct" && len(si.Fields) == len(vi.Fields) && len(si.Fields) > 0 {
		same := true
		var parts []string
		for i := range si.Fields {
			if si.Fields[i].Sort != vi.Fields[i].Sort || si.Fields[i].Name != vi.Fields[i].Name {
				same = false
				break
			}
			parts = append(parts, fmt.Sprintf("(%s.%s %s)", v.Sort, vi.Fields[i].Name, v.S))
		}
		if same {
			return Term{fmt.Sprintf("(mk.%s %s)", ts, strings.Join(parts, " ")), ts, t}
		}
	}
	return vc.specFail("conversion %s(%s) not supported in contracts", t, v.Sort)
}

// specMethod: recv.f(args) where recv is a term. Supports pure interface
// methods (Name#k selects result k) and pure concrete methods by contract.
func (vc *VC) specMethod(recv Term, name string, argEs []CExpr, env *SpecEnv) Term {
	k := 0
	if i := strings.Index(name, "#"); i >= 0 {
		fmt.Sscan(name[i+1:], &k)
		name = name[:i]
	}
	var args []Value
	for _, a := range argEs {
		args = append(args, vc.spec(a, env))
	}
	t := recv.T
	if t == nil {
		if si := vc.ss.info[recv.Sort]; si != nil {
			t = si.GoType
		}
	}
	if t == nil {
		return vc.specFail("method %s on untyped term of sort %s", name, recv.Sort)
	}
	obj, _, _ := types.LookupFieldOrMethod(t, true, nil, name)
	if obj == nil {
		// unexported methods need the package
		if n, ok := derefNamed(t); ok && n.Obj().Pkg() != nil {
			obj, _, _ = types.LookupFieldOrMethod(t, true, n.Obj().Pkg(), name)
		}
	}
	fn, ok := obj.(*types.Func)
	if !ok {
		return vc.specFail("no method %s on %v", name, t)
	}
	sig := fn.Type().(*types.Signature)
	key := funcObjKey(fn)
	if _, isI := vc.underlying(sig.Recv().Type()).(*types.Interface); isI {
		return vc.ifaceFn(key, sig, k, recv, args, token.NoPos)
	}
	fc := vc.w.cs.Funcs[key]
	if fc == nil || !fc.Pure {
		return vc.specFail("method %s is not declared pure", key)
	}
	e2 := &SpecEnv{vars: map[string]Value{}, old: map[string]Value{}, pkg: fc.Pkg, vc: vc}
	pn := vc.paramNames(fc, sig)
	for i, n := range pn {
		if i < len(args) {
			e2.old[n] = args[i]
		}
	}
	rn := sig.Recv().Name()
	if rn == "" || rn == "_" {
		rn = "self"
	}
	rv := recv
	rs := vc.ss.sortOf(sig.Recv().Type())
	if rv.Sort != rs {
		if si := vc.ss.info[rv.Sort]; si != nil && si.Kind == "ptr" {
			rv = Term{fmt.Sprintf("(val.%s %s)", rv.Sort, rv.S), vc.ss.sortOf(si.Elem), si.Elem}
		} else if si := vc.ss.info[rs]; si != nil && si.Kind == "ptr" {
			rv = Term{fmt.Sprintf("(ref.%s %s)", rs, rv.S), rs, sig.Recv().Type()}
		}
	}
	e2.old[rn] = rv
	return vc.pureResult(fc, sig, k, e2, pn, rn)
}

func derefNamed(t types.Type) (*types.Named, bool) {
	t = types.Unalias(t)
	if p, ok := t.(*types.Pointer); ok {
		t = types.Unalias(p.Elem())
	}
	n, ok := t.(*types.Named)
	return n, ok
}

func (vc *VC) applySpecArgs(sf *SpecFunc, argEs []CExpr, env *SpecEnv) Term {
	if len(argEs) != len(sf.Params) {
		return vc.specFail("spec function %s expects %d arguments, got %d", sf.Name, len(sf.Params), len(argEs))
	}
	var args []Term
	for i, a := range argEs {
		v := vc.spec(a, env)
		ps, pt := vc.specSort(sf.Params[i].Type, sf.Pkg)
		if v.Sort == "Nil" {
			v = vc.ss.zeroOfSort(ps, pt)
		}
		if v.Sort != ps {
			// implicit injection into interface / deref of pointer
			if si := vc.ss.info[ps]; si != nil && si.Kind == "iface" && v.T != nil {
				v = vc.ss.inj(ps, v, v.T)
			} else if si := vc.ss.info[v.Sort]; si != nil && si.Kind == "ptr" && vc.ss.sortOf(si.Elem) == ps {
				v = Term{fmt.Sprintf("(val.%s %s)", v.Sort, v.S), ps, si.Elem}
			} else {
				return vc.specFail("spec function %s argument %d: sort %s, expected %s", sf.Name, i, v.Sort, ps)
			}
		}
		// a ground map/slice argument is a Go value: its representation facts
		// (0 <= len, nil implies empty, ...) are needed by guarded axioms and may
		// lie deeper than the facts assumed for the parameters
		if si := vc.ss.info[v.Sort]; si != nil && (si.Kind == "map" || si.Kind == "slice") && pt != nil && !strings.Contains(v.S, "?") && !vc.inValInv {
			if vc.repFacts == nil {
				vc.repFacts = map[string]bool{}
			}
			if !vc.repFacts[v.S] {
				vc.repFacts[v.S] = true
				if f := vc.rangeFacts(v, pt, 2); f.S != "true" {
					vc.assume(tBool(true), f)
				}
			}
		}
		args = append(args, v)
	}
	return vc.applySpec(sf, args)
}

// applySpec applies a spec function (declared on demand in the sort registry,
// defined later by the query builder).
func (vc *VC) applySpec(sf *SpecFunc, args []Term) Term {
	vc.useSpec(sf)
	rs, rt := vc.specSort(sf.Ret, sf.Pkg)
	return Term{app("sp."+sf.Name, args...), rs, rt}
}

// goConst: value of a Go constant by qualified name (used by the query builder)
func constString(v constant.Value) string { return v.ExactString() }

// specPureFunc: F#k(args) — result k of a repository function whose contract
// is declared `pure` (an uninterpreted function of the arguments, constrained
// by the function's own verified contract at its call sites).
func (vc *VC) specPureFunc(name, kText string, argEs []CExpr, env *SpecEnv) (Term, bool) {
	key := env.pkg + "." + name
	if strings.Contains(name, ".") {
		key = vc.w.resolveQualified(env.pkg, name)
	}
	fi := vc.w.funcs[key]
	fc := vc.w.cs.Funcs[key]
	if fi == nil || fc == nil || !fc.Pure {
		return Term{}, false
	}
	k := 0
	fmt.Sscan(kText, &k)
	sig := fi.Obj.Type().(*types.Signature)
	if k >= sig.Results().Len() {
		return Term{}, false
	}
	e2 := &SpecEnv{vars: map[string]Value{}, old: map[string]Value{}, pkg: fc.Pkg, vc: vc}
	pn := vc.paramNames(fc, sig)
	if len(argEs) != len(pn) {
		return Term{}, false
	}
	for i, n := range pn {
		v := vc.spec(argEs[i], env)
		v = vc.convertTo(v, v.T, sig.Params().At(i).Type(), token.NoPos)
		e2.old[n] = v
	}
	return vc.pureResult(fc, sig, k, e2, pn, ""), true
}
