package main

// Symbolic execution of statements.

import (
	"fmt"
	"go/ast"
	"go/token"
	"go/types"
	"sort"
	"strings"
)

func (vc *VC) execBlock(stmts []ast.Stmt, st *State) *State {
	for _, s := range stmts {
		if st == nil {
			return nil
		}
		st = vc.execStmt(s, st)
	}
	return st
}

func (vc *VC) execStmt(s ast.Stmt, st *State) *State {
	if st == nil || st.pc.S == "false" {
		return nil
	}
	st = vc.anchored(s, st, "before")
	st = vc.execStmt1(s, st)
	if st != nil {
		st = vc.anchored(s, st, "after")
	}
	return st
}

// anchored applies ghost asserts/assumes attached to a statement by textual anchor.
func (vc *VC) anchored(s ast.Stmt, st *State, when string) *State {
	fr := vc.cur()
	if fr.fc == nil || (len(fr.fc.Asserts) == 0 && len(fr.fc.Assumes) == 0 && len(fr.fc.Ghosts) == 0) {
		return st
	}
	switch s.(type) {
	case *ast.BlockStmt, *ast.IfStmt, *ast.ForStmt, *ast.RangeStmt, *ast.SwitchStmt, *ast.TypeSwitchStmt, *ast.LabeledStmt:
		return st
	}
	src := vc.src(s)
	for _, g := range fr.fc.Ghosts {
		if g.When == when && g.Anchor == src {
			vc.anchorHit(g)
			vc.defineGhost(g.Clause, st, s.Pos())
		}
	}
	for _, a := range fr.fc.Asserts {
		if a.When == when && a.Anchor == src {
			vc.anchorHit(a)
			env := vc.localEnv(st, s.Pos())
			c := vc.specBool(a.Clause.Expr, env)
			vc.oblige("assert", a.Clause.Name, s.Pos(), st.pc, c, a.Clause.Src)
			vc.assume(st.pc, c)
		}
	}
	for _, a := range fr.fc.Assumes {
		if a.When == when && a.Anchor == src {
			vc.anchorHit(a)
			env := vc.localEnv(st, s.Pos())
			vc.assume(st.pc, vc.specBool(a.Clause.Expr, env))
		}
	}
	return st
}

func (vc *VC) anchorHit(a AnchoredClause) {
	if vc.anchorHits == nil {
		vc.anchorHits = map[string]int{}
	}
	vc.anchorHits[a.Clause.Kind+"|"+a.Anchor+"|"+a.Clause.Src]++
}

// checkAnchors reports anchored clauses whose anchor statement was not found
// (a stale anchor would otherwise silently drop an assertion).
func (vc *VC) checkAnchors(fc *FuncContract) {
	if fc == nil {
		return
	}
	for _, lst := range [][]AnchoredClause{fc.Asserts, fc.Assumes, fc.Ghosts} {
		for _, a := range lst {
			if vc.anchorHits[a.Clause.Kind+"|"+a.Anchor+"|"+a.Clause.Src] == 0 {
				vc.unsupportedf(token.NoPos, "anchor %q of %s clause not found in the function body", a.Anchor, a.Clause.Kind)
			}
		}
	}
}

// defineGhost introduces a ghost set/array by comprehension:
//
//	ghost before "anchor" S: forall x T :: S[x] == e      (e must not mention S)
//
// A fresh array constant is declared and its defining equation is assumed.
// This is a conservative extension (such an array always exists), so it can
// never make the assumptions inconsistent.
func (vc *VC) defineGhost(c Clause, st *State, pos token.Pos) {
	q, ok := c.Expr.(CQuant)
	if !ok || !q.Forall || len(q.Vars) != 1 || c.Name == "" {
		vc.unsupportedf(pos, "ghost %s: expected `name: forall x T :: name[x] == e`", c.Name)
		return
	}
	eq, ok := q.Body.(CBinary)
	if !ok || (eq.Op != "==" && eq.Op != "<==>") {
		vc.unsupportedf(pos, "ghost %s: body must be an equation", c.Name)
		return
	}
	ix, ok := eq.X.(CIndex)
	if !ok {
		vc.unsupportedf(pos, "ghost %s: left side must be %s[x]", c.Name, c.Name)
		return
	}
	if id, ok := ix.X.(CIdent); !ok || id.Name != c.Name {
		vc.unsupportedf(pos, "ghost %s: left side must be %s[x]", c.Name, c.Name)
		return
	}
	if iv, ok := ix.I.(CIdent); !ok || iv.Name != q.Vars[0].Name {
		vc.unsupportedf(pos, "ghost %s: index must be the bound variable", c.Name)
		return
	}
	if mentions(eq.Y, c.Name) {
		vc.unsupportedf(pos, "ghost %s: definition mentions itself", c.Name)
		return
	}
	env := vc.localEnv(st, pos)
	ks, kt := vc.specSort(q.Vars[0].Type, env.pkg)
	n := env.child()
	bv := Term{q.Vars[0].Name + "?", ks, kt}
	n.bound[q.Vars[0].Name] = bv
	body := vc.spec(eq.Y, n)
	asort := Sort(fmt.Sprintf("(Array %s %s)", ks, body.Sort))
	g := vc.freshOfSort(c.Name, asort, nil)
	vc.assumes = append(vc.assumes, fmt.Sprintf("(assert (forall ((%s %s)) (! (= (select %s %s) %s) :pattern ((select %s %s)))))", bv.S, ks, g.S, bv.S, body.S, g.S, bv.S))
	fr := vc.cur()
	if fr.ghosts == nil {
		fr.ghosts = map[string]Value{}
	}
	fr.ghosts[c.Name] = g
}

func (vc *VC) execStmt1(s ast.Stmt, st *State) *State {
	switch x := s.(type) {
	case *ast.BlockStmt:
		return vc.execBlock(x.List, st)
	case *ast.EmptyStmt:
		return st
	case *ast.ExprStmt:
		if call, ok := x.X.(*ast.CallExpr); ok {
			if id, ok := call.Fun.(*ast.Ident); ok && id.Name == "panic" {
				if _, isB := vc.cur().info.ObjectOf(id).(*types.Builtin); isB {
					for _, a := range call.Args {
						vc.evalExprNoSafety(a, st)
					}
					if vc.safety {
						vc.oblige("safe:panic-unreachable", "", x.Pos(), st.pc, tBool(false), "explicit panic is unreachable")
					}
					return nil
				}
			}
			vc.evalCall(call, st)
			return st
		}
		vc.evalExpr(x.X, st)
		return st
	case *ast.DeclStmt:
		gd, ok := x.Decl.(*ast.GenDecl)
		if !ok {
			return st
		}
		for _, sp := range gd.Specs {
			vs, ok := sp.(*ast.ValueSpec)
			if !ok {
				continue
			}
			if len(vs.Values) == 0 {
				for _, n := range vs.Names {
					obj := vc.cur().info.Defs[n]
					if obj == nil {
						continue
					}
					st.vars[obj] = vc.ss.zero(obj.Type())
				}
				continue
			}
			if len(vs.Values) == 1 && len(vs.Names) > 1 {
				vals := vc.evalMulti(vs.Values[0], st, len(vs.Names))
				for i, n := range vs.Names {
					vc.defineVar(n, vals[i], st)
				}
				continue
			}
			for i, n := range vs.Names {
				v := vc.evalExpr(vs.Values[i], st)
				if obj := vc.cur().info.Defs[n]; obj != nil {
					if tm, ok := v.(Term); ok {
						v = vc.convertTo(tm, vc.typeOf(vs.Values[i]), obj.Type(), n.Pos())
					}
				}
				vc.defineVar(n, v, st)
			}
		}
		return st
	case *ast.AssignStmt:
		return vc.execAssign(x, st)
	case *ast.IncDecStmt:
		v := vc.term(vc.evalExpr(x.X, st), x.Pos())
		t := vc.typeOf(x.X)
		op := "+"
		if x.Tok == token.DEC {
			op = "-"
		}
		var nv Term
		lo, _ := intRange(t)
		exact := Term{fmt.Sprintf("(%s %s 1)", op, v.S), SInt, t}
		if lo != nil && vc.checked && !vc.stmtWraps(x) {
			vc.oblige("nowrap", "", x.Pos(), st.pc, inRange(exact, t), "no overflow in `"+vc.src(x)+"`")
			nv = exact
		} else if lo != nil {
			nv = wrapTo(exact, t)
		} else {
			nv = exact
		}
		vc.store(x.X, st, vc.define("inc", nv))
		return st
	case *ast.ReturnStmt:
		return vc.execReturn(x, st)
	case *ast.IfStmt:
		return vc.execIf(x, st)
	case *ast.ForStmt:
		return vc.execFor(x, st, "")
	case *ast.RangeStmt:
		return vc.execRange(x, st, "")
	case *ast.SwitchStmt:
		return vc.execSwitch(x, st, "")
	case *ast.TypeSwitchStmt:
		return vc.execTypeSwitch(x, st, "")
	case *ast.LabeledStmt:
		switch inner := x.Stmt.(type) {
		case *ast.ForStmt:
			return vc.execFor(inner, st, x.Label.Name)
		case *ast.RangeStmt:
			return vc.execRange(inner, st, x.Label.Name)
		case *ast.SwitchStmt:
			return vc.execSwitch(inner, st, x.Label.Name)
		case *ast.TypeSwitchStmt:
			return vc.execTypeSwitch(inner, st, x.Label.Name)
		}
		vc.unsupportedf(x.Pos(), "label %s on %T", x.Label.Name, x.Stmt)
		return vc.execStmt(x.Stmt, st)
	case *ast.BranchStmt:
		return vc.execBranch(x, st)
	case *ast.DeferStmt:
		vc.unsupportedf(x.Pos(), "defer")
		return st
	case *ast.GoStmt:
		vc.unsupportedf(x.Pos(), "go statement")
		return st
	}
	vc.unsupportedf(s.Pos(), "statement %T", s)
	return st
}

func (vc *VC) evalExprNoSafety(e ast.Expr, st *State) Value {
	save := vc.safety
	vc.safety = false
	defer func() { vc.safety = save }()
	return vc.evalExpr(e, st)
}

func (vc *VC) stmtWraps(s ast.Stmt) bool {
	fr := vc.cur()
	if fr.fc == nil {
		return false
	}
	src := vc.src(s)
	for _, w := range fr.fc.Wraps {
		if w == src || w == "*" {
			return true
		}
	}
	return false
}

func (vc *VC) defineVar(id *ast.Ident, v Value, st *State) {
	if id.Name == "_" {
		return
	}
	obj := vc.cur().info.Defs[id]
	if obj == nil {
		obj = vc.cur().info.Uses[id]
	}
	if obj == nil {
		return
	}
	if tm, ok := v.(Term); ok {
		v = vc.convertTo(tm, nil, obj.Type(), id.Pos())
	}
	st.vars[obj] = v
}

// evalMulti evaluates an expression producing n values (call, comma-ok forms).
func (vc *VC) evalMulti(e ast.Expr, st *State, n int) []Value {
	switch x := e.(type) {
	case *ast.ParenExpr:
		return vc.evalMulti(x.X, st, n)
	case *ast.CallExpr:
		vals := vc.evalCall(x, st)
		for len(vals) < n {
			vals = append(vals, vc.unknown("ret", nil))
		}
		return vals
	case *ast.TypeAssertExpr:
		if n == 2 {
			v, ok := vc.evalTypeAssert(x, st, true)
			return []Value{v, ok}
		}
	case *ast.IndexExpr:
		if n == 2 {
			base := vc.term(vc.evalExpr(x.X, st), x.Pos())
			v, ok := vc.indexValue(base, vc.typeOf(x.X), x.Index, st, x.Pos(), true)
			return []Value{v, ok}
		}
	case *ast.UnaryExpr:
		if x.Op == token.ARROW {
			vc.unsupportedf(x.Pos(), "channel receive")
		}
	}
	v := vc.evalExpr(e, st)
	if tup, ok := v.(Tuple); ok {
		return tup
	}
	out := []Value{v}
	for len(out) < n {
		out = append(out, vc.unknown("multi", nil))
	}
	return out
}

func (vc *VC) execAssign(x *ast.AssignStmt, st *State) *State {
	if x.Tok != token.ASSIGN && x.Tok != token.DEFINE {
		// op-assign
		bin := &ast.BinaryExpr{X: x.Lhs[0], Y: x.Rhs[0], OpPos: x.TokPos}
		switch x.Tok {
		case token.ADD_ASSIGN:
			bin.Op = token.ADD
		case token.SUB_ASSIGN:
			bin.Op = token.SUB
		case token.MUL_ASSIGN:
			bin.Op = token.MUL
		case token.QUO_ASSIGN:
			bin.Op = token.QUO
		case token.REM_ASSIGN:
			bin.Op = token.REM
		case token.AND_ASSIGN:
			bin.Op = token.AND
		case token.OR_ASSIGN:
			bin.Op = token.OR
		case token.XOR_ASSIGN:
			bin.Op = token.XOR
		case token.SHL_ASSIGN:
			bin.Op = token.SHL
		case token.SHR_ASSIGN:
			bin.Op = token.SHR
		case token.AND_NOT_ASSIGN:
			bin.Op = token.AND_NOT
		}
		// types.Info has no entry for the synthetic node; record the type
		vc.cur().info.Types[bin] = types.TypeAndValue{Type: vc.typeOf(x.Lhs[0])}
		v := vc.term(vc.evalBinary(bin, st), x.Pos())
		delete(vc.cur().info.Types, bin)
		vc.store(x.Lhs[0], st, v)
		return st
	}
	var vals []Value
	if len(x.Rhs) == 1 && len(x.Lhs) > 1 {
		vals = vc.evalMulti(x.Rhs[0], st, len(x.Lhs))
	} else {
		for _, r := range x.Rhs {
			vals = append(vals, vc.evalExpr(r, st))
		}
	}
	for i, l := range x.Lhs {
		if i >= len(vals) {
			break
		}
		var rt types.Type
		if len(x.Rhs) == len(x.Lhs) {
			rt = vc.typeOf(x.Rhs[i])
		}
		vc.assignTo(l, vals[i], rt, st, x.Tok == token.DEFINE)
	}
	return st
}

func (vc *VC) assignTo(l ast.Expr, v Value, rt types.Type, st *State, define bool) {
	if id, ok := l.(*ast.Ident); ok {
		if id.Name == "_" {
			return
		}
		info := vc.cur().info
		obj := info.Defs[id]
		if obj == nil {
			obj = info.Uses[id]
		}
		if obj == nil {
			return
		}
		if vr, ok := obj.(*types.Var); ok && vr.Pkg() != nil && vr.Parent() == vr.Pkg().Scope() {
			vc.unsupportedf(l.Pos(), "write to package-level variable %s", id.Name)
			return
		}
		if tm, ok := v.(Term); ok {
			v = vc.convertTo(tm, rt, obj.Type(), l.Pos())
		}
		st.vars[obj] = v
		return
	}
	tm := vc.term(v, l.Pos())
	tm = vc.convertTo(tm, rt, vc.typeOf(l), l.Pos())
	vc.store(l, st, tm)
}

// store writes nv to the location denoted by lvalue expression e (functional
// update along the access path; pointers are uniquely owned references).
func (vc *VC) store(e ast.Expr, st *State, nv Term) {
	info := vc.cur().info
	switch x := e.(type) {
	case *ast.ParenExpr:
		vc.store(x.X, st, nv)
	case *ast.Ident:
		if x.Name == "_" {
			return
		}
		obj := info.ObjectOf(x)
		if obj == nil {
			return
		}
		if vr, ok := obj.(*types.Var); ok && vr.Pkg() != nil && vr.Parent() == vr.Pkg().Scope() {
			vc.unsupportedf(x.Pos(), "write to package-level variable %s", x.Name)
			return
		}
		nv = vc.convertTo(nv, nil, obj.Type(), x.Pos())
		st.vars[obj] = nv
	case *ast.SelectorExpr:
		sel, ok := info.Selections[x]
		if !ok || sel.Kind() != types.FieldVal {
			vc.unsupportedf(x.Pos(), "store to selector %s", vc.src(x))
			return
		}
		base := vc.term(vc.evalExprNoSafety(x.X, st), x.Pos())
		upd := vc.updatePath(base, sel.Recv(), sel.Index(), nv, st, x.Pos())
		vc.store(x.X, st, upd)
	case *ast.IndexExpr:
		base := vc.term(vc.evalExprNoSafety(x.X, st), x.Pos())
		bt := vc.typeOf(x.X)
		isPtr := false
		ptrSort := base.Sort
		if pt, ok := vc.underlying(bt).(*types.Pointer); ok {
			base = vc.deref(base, st, x.Pos())
			bt = pt.Elem()
			isPtr = true
		}
		idx := vc.term(vc.evalExpr(x.Index, st), x.Pos())
		var upd Term
		switch u := vc.underlying(bt).(type) {
		case *types.Slice:
			if vc.safety {
				vc.oblige("safe:index", "", x.Pos(), st.pc, Term{fmt.Sprintf("(and (<= 0 %s) (< %s (len.%s %s)))", idx.S, idx.S, base.Sort, base.S), SBool, nil}, "slice index in range (store): `"+vc.src(x.Index)+"`")
			}
			nv = vc.convertTo(nv, nil, u.Elem(), x.Pos())
			upd = Term{fmt.Sprintf("(mk.%s (len.%s %s) (store (arr.%s %s) %s %s) (isnil.%s %s))", base.Sort, base.Sort, base.S, base.Sort, base.S, idx.S, nv.S, base.Sort, base.S), base.Sort, base.T}
		case *types.Array:
			if vc.safety {
				vc.oblige("safe:index", "", x.Pos(), st.pc, Term{fmt.Sprintf("(and (<= 0 %s) (< %s %d))", idx.S, idx.S, u.Len()), SBool, nil}, "array index in range (store)")
			}
			upd = Term{fmt.Sprintf("(store %s %s %s)", base.S, idx.S, nv.S), base.Sort, base.T}
		case *types.Map:
			if vc.safety {
				vc.oblige("safe:nil-map-write", "", x.Pos(), st.pc, tNot(Term{fmt.Sprintf("(isnil.%s %s)", base.Sort, base.S), SBool, nil}), "write to non-nil map")
			}
			idx = vc.convertTo(idx, vc.typeOf(x.Index), u.Key(), x.Pos())
			nv = vc.convertTo(nv, nil, u.Elem(), x.Pos())
			upd = vc.mapPut(base, idx, nv)
		default:
			vc.unsupportedf(x.Pos(), "indexed store on %v", bt)
			return
		}
		upd = vc.define("upd", upd)
		if isPtr {
			upd = Term{fmt.Sprintf("(ref.%s %s)", ptrSort, upd.S), ptrSort, nil}
		}
		vc.store(x.X, st, upd)
	case *ast.StarExpr:
		p := vc.term(vc.evalExprNoSafety(x.X, st), x.Pos())
		si := vc.ss.info[p.Sort]
		if si == nil || si.Kind != "ptr" {
			vc.unsupportedf(x.Pos(), "store through %s", p.Sort)
			return
		}
		if vc.safety {
			vc.oblige("safe:nil-deref", "", x.Pos(), st.pc, Term{fmt.Sprintf("((_ is ref.%s) %s)", p.Sort, p.S), SBool, nil}, "pointer is non-nil (store)")
		}
		nv = vc.convertTo(nv, nil, si.Elem, x.Pos())
		vc.store(x.X, st, Term{fmt.Sprintf("(ref.%s %s)", p.Sort, nv.S), p.Sort, p.T})
	default:
		vc.unsupportedf(e.Pos(), "store to %T", e)
	}
}

// updatePath returns base with the field at path replaced by nv.
func (vc *VC) updatePath(base Term, recvT types.Type, path []int, nv Term, st *State, pos token.Pos) Term {
	t := types.Unalias(recvT)
	if tp, ok := t.(*types.TypeParam); ok {
		if a, ok := vc.ss.tparams[tp.Obj().Name()]; ok {
			t = a
		}
	}
	if pt, ok := t.Underlying().(*types.Pointer); ok {
		inner := vc.deref(base, st, pos)
		upd := vc.updatePath(inner, pt.Elem(), path, nv, st, pos)
		return Term{fmt.Sprintf("(ref.%s %s)", base.Sort, upd.S), base.Sort, base.T}
	}
	stt, ok := t.Underlying().(*types.Struct)
	if !ok {
		vc.unsupportedf(pos, "field store on %v", t)
		return base
	}
	f := stt.Field(path[0])
	if len(path) == 1 {
		si := vc.ss.info[base.Sort]
		if si == nil || si.Kind != "struct" {
			vc.unsupportedf(pos, "field store on opaque %s", base.Sort)
			return base
		}
		nv = vc.convertTo(nv, nil, f.Type(), pos)
		return vc.ss.withField(vc.define("st", base), f.Name(), nv)
	}
	inner, ok := vc.ss.field(base, f.Name())
	if !ok {
		vc.unsupportedf(pos, "nested field store on opaque %s", base.Sort)
		return base
	}
	upd := vc.updatePath(inner, f.Type(), path[1:], nv, st, pos)
	return vc.ss.withField(vc.define("st", base), f.Name(), upd)
}

func (vc *VC) execReturn(x *ast.ReturnStmt, st *State) *State {
	fr := vc.cur()
	var vals []Value
	nres := 0
	if fr.sig != nil {
		nres = fr.sig.Results().Len()
	}
	switch {
	case len(x.Results) == 0 && nres > 0:
		for _, r := range fr.results {
			vals = append(vals, st.vars[r])
		}
	case len(x.Results) == 1 && nres > 1:
		vals = vc.evalMulti(x.Results[0], st, nres)
	default:
		for _, r := range x.Results {
			vals = append(vals, vc.evalExpr(r, st))
		}
	}
	// implicit conversions to result types
	if fr.sig != nil {
		for i := range vals {
			if i < nres {
				if tm, ok := vals[i].(Term); ok {
					var from types.Type
					if len(x.Results) == nres {
						from = vc.typeOf(x.Results[i])
					}
					vals[i] = vc.convertTo(tm, from, fr.sig.Results().At(i).Type(), x.Pos())
				}
			}
		}
	}
	// named results are assigned by a return with operands
	for i, r := range fr.results {
		if i < len(vals) && r.Name() != "" && r.Name() != "_" {
			st.vars[r] = vals[i]
		}
	}
	fr.returns = append(fr.returns, retPoint{st: st, vals: vals})
	return nil
}

func (vc *VC) execIf(x *ast.IfStmt, st *State) *State {
	if x.Init != nil {
		st = vc.execStmt(x.Init, st)
		if st == nil {
			return nil
		}
	}
	c := vc.term(vc.evalExpr(x.Cond, st), x.Pos())
	c = vc.define("c", c)
	thenSt := st.clone()
	thenSt.pc = vc.definePC(tAnd(st.pc, c))
	elseSt := st.clone()
	elseSt.pc = vc.definePC(tAnd(st.pc, tNot(c)))
	t := vc.execBlock(x.Body.List, thenSt)
	var e *State
	if x.Else != nil {
		e = vc.execStmt(x.Else, elseSt)
	} else {
		e = elseSt
	}
	return vc.mergeStates([]*State{t, e})
}

func (vc *VC) execBranch(x *ast.BranchStmt, st *State) *State {
	fr := vc.cur()
	label := ""
	if x.Label != nil {
		label = x.Label.Name
	}
	switch x.Tok {
	case token.BREAK:
		for i := len(fr.loops) - 1; i >= 0; i-- {
			lc := fr.loops[i]
			if label == "" || lc.label == label {
				lc.breaks = append(lc.breaks, st)
				return nil
			}
		}
	case token.CONTINUE:
		for i := len(fr.loops) - 1; i >= 0; i-- {
			lc := fr.loops[i]
			if lc.isSwitch {
				continue
			}
			if label == "" || lc.label == label {
				lc.continues = append(lc.continues, st)
				return nil
			}
		}
	case token.FALLTHROUGH:
		vc.unsupportedf(x.Pos(), "fallthrough")
		return st
	case token.GOTO:
		vc.unsupportedf(x.Pos(), "goto")
		return nil
	}
	vc.unsupportedf(x.Pos(), "branch %s without target", x.Tok)
	return nil
}

func (vc *VC) execSwitch(x *ast.SwitchStmt, st *State, label string) *State {
	if x.Init != nil {
		st = vc.execStmt(x.Init, st)
		if st == nil {
			return nil
		}
	}
	var tag Term
	var tagT types.Type
	hasTag := x.Tag != nil
	if hasTag {
		tag = vc.define("tag", vc.term(vc.evalExpr(x.Tag, st), x.Pos()))
		tagT = vc.typeOf(x.Tag)
	}
	fr := vc.cur()
	lc := &loopCtx{label: label, isSwitch: true}
	fr.loops = append(fr.loops, lc)
	var outs []*State
	rest := st // state in which no earlier case matched
	var deflt *ast.CaseClause
	// a clause ending in `fallthrough` continues with the statements of the
	// clause written after it
	bodyOf := func(i int) []ast.Stmt {
		var out []ast.Stmt
		for ; i < len(x.Body.List); i++ {
			b := x.Body.List[i].(*ast.CaseClause).Body
			if n := len(b); n > 0 {
				if br, ok := b[n-1].(*ast.BranchStmt); ok && br.Tok == token.FALLTHROUGH {
					out = append(out, b[:n-1]...)
					continue
				}
			}
			out = append(out, b...)
			break
		}
		return out
	}
	clauseIdx := map[*ast.CaseClause]int{}
	for i, cs := range x.Body.List {
		clauseIdx[cs.(*ast.CaseClause)] = i
	}
	for _, cs := range x.Body.List {
		cc := cs.(*ast.CaseClause)
		if cc.List == nil {
			deflt = cc
			continue
		}
		var alts []Term
		for _, ce := range cc.List {
			if hasTag {
				v := vc.term(vc.evalExpr(ce, rest), ce.Pos())
				alts = append(alts, vc.equal(tag, v, tagT, vc.typeOf(ce), ce.Pos()))
			} else {
				alts = append(alts, vc.term(vc.evalExpr(ce, rest), ce.Pos()))
			}
		}
		c := vc.define("case", tOr(alts...))
		body := rest.clone()
		body.pc = vc.definePC(tAnd(rest.pc, c))
		outs = append(outs, vc.execBlock(bodyOf(clauseIdx[cc]), body))
		nrest := rest.clone()
		nrest.pc = vc.definePC(tAnd(rest.pc, tNot(c)))
		rest = nrest
	}
	if deflt != nil {
		outs = append(outs, vc.execBlock(bodyOf(clauseIdx[deflt]), rest))
	} else {
		outs = append(outs, rest)
	}
	fr.loops = fr.loops[:len(fr.loops)-1]
	outs = append(outs, lc.breaks...)
	return vc.mergeStates(outs)
}

func (vc *VC) execTypeSwitch(x *ast.TypeSwitchStmt, st *State, label string) *State {
	if x.Init != nil {
		st = vc.execStmt(x.Init, st)
		if st == nil {
			return nil
		}
	}
	var subject ast.Expr
	var bindName *ast.Ident
	switch a := x.Assign.(type) {
	case *ast.ExprStmt:
		subject = a.X.(*ast.TypeAssertExpr).X
	case *ast.AssignStmt:
		subject = a.Rhs[0].(*ast.TypeAssertExpr).X
		bindName = a.Lhs[0].(*ast.Ident)
	}
	_ = bindName
	v := vc.define("ts", vc.term(vc.evalExpr(subject, st), x.Pos()))
	subjT := vc.typeOf(subject)
	fr := vc.cur()
	lc := &loopCtx{label: label, isSwitch: true}
	fr.loops = append(fr.loops, lc)
	var outs []*State
	rest := st
	var deflt *ast.CaseClause
	si := vc.ss.info[v.Sort]
	isIface := si != nil && si.Kind == "iface"
	if !isIface {
		vc.unsupportedf(x.Pos(), "type switch on sort %s", v.Sort)
	} else if vc.fc != nil && vc.fc.WellFormed && vc.safety {
		// sweep option `wellformed`: the node examined is not nil
		vc.assume(st.pc, tNot(vc.isNil(v, x.Pos())))
		vc.axiomsUsed = append(vc.axiomsUsed, "assumed: well-formed tree (interface-typed children are non-nil)")
	}
	for _, cs := range x.Body.List {
		cc := cs.(*ast.CaseClause)
		if cc.List == nil {
			deflt = cc
			continue
		}
		var alts []Term
		var single types.Type
		for _, ce := range cc.List {
			if id, ok := ce.(*ast.Ident); ok && id.Name == "nil" {
				alts = append(alts, vc.isNil(v, ce.Pos()))
				continue
			}
			ct := vc.typeOf(ce)
			if !isIface {
				alts = append(alts, vc.freshOfSort("tscase", SBool, nil))
				continue
			}
			if ti, ok := vc.underlying(ct).(*types.Interface); ok {
				var ialts []Term
				for _, it := range vc.w.implementers(ti, typeKey(ct), ct) {
					ialts = append(ialts, vc.ss.hasTag(v.Sort, v, it))
				}
				alts = append(alts, tOr(ialts...))
			} else {
				alts = append(alts, vc.ss.hasTag(v.Sort, v, ct))
			}
			if len(cc.List) == 1 {
				single = ct
			}
		}
		c := vc.define("tcase", tOr(alts...))
		body := rest.clone()
		body.pc = vc.definePC(tAnd(rest.pc, c))
		if obj := fr.info.Implicits[cc]; obj != nil {
			if single != nil && isIface {
				if _, isI := vc.underlying(single).(*types.Interface); isI {
					bv := v
					bv.T = single
					body.vars[obj] = bv
				} else {
					body.vars[obj] = vc.ss.proj(v.Sort, v, single)
				}
			} else {
				bv := v
				bv.T = subjT
				body.vars[obj] = bv
			}
		}
		outs = append(outs, vc.execBlock(cc.Body, body))
		nrest := rest.clone()
		nrest.pc = vc.definePC(tAnd(rest.pc, tNot(c)))
		rest = nrest
	}
	if deflt != nil {
		if obj := fr.info.Implicits[deflt]; obj != nil {
			bv := v
			bv.T = subjT
			rest.vars[obj] = bv
		}
		// closed world: in the default arm the dynamic type is none of the
		// implementers handled above; exhaustiveness is decided by the solver
		// from the closed-world axiom of the interface.
		vc.closedWorld(v, subjT)
		outs = append(outs, vc.execBlock(deflt.Body, rest))
	} else {
		outs = append(outs, rest)
	}
	fr.loops = fr.loops[:len(fr.loops)-1]
	outs = append(outs, lc.breaks...)
	return vc.mergeStates(outs)
}

// closedWorld asserts that the dynamic type of an interface value is nil or
// one of the implementers found in the repository (closed-world assumption,
// sound for interfaces with unexported marker methods and stated as an
// assumption otherwise).
func (vc *VC) closedWorld(v Term, t types.Type) {
	if t == nil {
		return
	}
	// an interface represented by the sort of another one (alias): the closed
	// world is that of the representing interface
	if n, ok := types.Unalias(t).(*types.Named); ok && n.Obj().Pkg() != nil {
		if al, ok := vc.w.aliases[n.Obj().Pkg().Path()+"."+n.Obj().Name()]; ok {
			if at := vc.w.lookupType(al); at != nil {
				t = at
			}
		}
	}
	ti, ok := vc.underlying(t).(*types.Interface)
	if !ok || ti.NumMethods() == 0 {
		return
	}
	key := "cw$" + string(v.Sort)
	if vc.ss.info[Sort(key)] != nil {
		return
	}
	impls := vc.w.implementers(ti, typeKey(t), t)
	var alts []string
	alts = append(alts, fmt.Sprintf("(= (tag.%s i) 0)", v.Sort))
	for _, it := range impls {
		if vc.fc != nil && vc.fc.WellFormed {
			// sweep option `wellformed`: the tree consists of the node types of the
			// package that declares the interface (wrappers that embed them in
			// other packages are not tree nodes)
			if in, ok := types.Unalias(t).(*types.Named); ok && in.Obj().Pkg() != nil {
				if n, ok := derefNamed(it); ok && n.Obj().Pkg() != nil && n.Obj().Pkg().Path() != in.Obj().Pkg().Path() {
					continue
				}
			}
		}
		alts = append(alts, fmt.Sprintf("(= (tag.%s i) %d)", v.Sort, vc.ss.typeID(it)))
		vc.ss.hasTag(v.Sort, v, it) // ensure declared
	}
	sort.Strings(alts)
	decl := fmt.Sprintf("(assert (forall ((i %s)) (! (or %s) :pattern ((tag.%s i)))))\n(assert (forall ((i %s)) (! (=> (= (tag.%s i) 0) (= i nil.%s)) :pattern ((tag.%s i)))))",
		v.Sort, strings.Join(alts, " "), v.Sort, v.Sort, v.Sort, v.Sort, v.Sort)
	vc.ss.declare(&sortInfo{Name: Sort(key), Kind: "axiom", Decl: decl})
}
