package main

// Safety sweeps and type invariants.
//
// `sweep <PROP> <file>...` puts every function declared in the named files of
// the package under an (implicit) contract with safety obligations: index and
// slice bounds, nil dereference, single-value type assertions, division by
// zero, nil-map writes, explicit panics.
//
// `typeinv <Type> <expr over self>` is a representation invariant: it is
// added as precondition and postcondition to every method of Type that is
// under contract (explicit or implicit), with `modifies <receiver>` for
// pointer receivers.

import (
	"go/ast"
	"go/types"
	"path/filepath"
	"sort"
	"strings"
)

// smallBody: at most 8 statements (counted recursively) and no loop.
func smallBody(fi *FuncInfo) bool {
	if fi == nil || fi.Decl.Body == nil {
		return false
	}
	n := 0
	small := true
	ast.Inspect(fi.Decl.Body, func(nd ast.Node) bool {
		switch nd.(type) {
		case *ast.ForStmt, *ast.RangeStmt:
			small = false
		case ast.Stmt:
			n++
		}
		return small
	})
	return small && n <= 10
}

func (w *World) applySweeps() {
	var keys []string
	for k := range w.funcs {
		keys = append(keys, k)
	}
	sort.Strings(keys)
	for _, sw := range w.cs.Sweeps {
		files := map[string]bool{}
		only := map[string]bool{} // +Name / +Type.Method: restrict the sweep to these functions
		for _, f := range sw.Files {
			if strings.HasPrefix(f, "+") {
				only[f[1:]] = true
				continue
			}
			files[f] = true
		}
		// `wellformed`: the functions work on a tree of interface values (an AST)
		// that is assumed to have no nil children; stated as an assumption
		wellFormed := files["wellformed"]
		delete(files, "wellformed")
		for _, k := range keys {
			fi := w.funcs[k]
			if fi.Pkg.PkgPath != sw.Pkg || fi.Decl.Body == nil {
				continue
			}
			base := filepath.Base(w.fset.Position(fi.Decl.Pos()).Filename)
			if !files[base] && !files["*"] {
				continue
			}
			if len(only) > 0 && !only[strings.TrimPrefix(k, sw.Pkg+".")] {
				continue
			}
			fc := w.cs.Funcs[k]
			if fc == nil {
				pos := w.fset.Position(fi.Decl.Pos())
				fc = &FuncContract{Key: k, Pkg: sw.Pkg, Name: strings.TrimPrefix(k, sw.Pkg+"."), Loops: map[string]*LoopSpec{}, Implicit: true,
					File: pos.Filename, Line: pos.Line}
				w.cs.Funcs[k] = fc
				w.cs.Order = append(w.cs.Order, k)
			}
			if fc.Trusted || fc.NoSafety {
				continue
			}
			if !contains(fc.Props, sw.Prop) {
				fc.Props = append(fc.Props, sw.Prop)
			}
			fc.Safety = true
			if wellFormed {
				fc.WellFormed = true
			}
		}
	}
	for _, ti := range w.cs.TypeInvs {
		for _, k := range keys {
			fi := w.funcs[k]
			fc := w.cs.Funcs[k]
			if fc == nil || fi.Pkg.PkgPath != ti.Pkg || fc.Trusted {
				continue
			}
			sig := fi.Obj.Type().(*types.Signature)
			if sig.Recv() == nil || !strings.HasPrefix(k, ti.Pkg+"."+ti.Type+".") {
				continue
			}
			fc.Requires = append(fc.Requires, ti.Clause)
			fc.Implicit = false
			if ti.ReadOnly {
				continue
			}
			fc.Ensures = append(fc.Ensures, ti.Clause)
			rname := sig.Recv().Name()
			if _, isPtr := sig.Recv().Type().(*types.Pointer); isPtr && rname != "" && rname != "_" && !contains(fc.Modifies, rname) {
				fc.Modifies = append(fc.Modifies, rname)
			}
		}
	}
}
