package main

// Verification context: symbolic state, obligations, fresh symbols.

import (
	"fmt"
	"go/ast"
	"go/token"
	"go/types"
	"sort"
	"strings"
	"sync"
)

// Value is a symbolic value: Term, *Closure, *FuncRef or Tuple.
type Value interface{}

type Tuple []Value

type Closure struct {
	Lit  *ast.FuncLit
	Info *types.Info
	Fr   *frame
}

type FuncRef struct {
	Obj  *types.Func
	Recv Value // bound receiver for method values (may be nil)
	RecvExpr ast.Expr
}

type State struct {
	vars map[types.Object]Value
	pc   Term
}

func (s *State) clone() *State {
	n := &State{vars: make(map[types.Object]Value, len(s.vars)), pc: s.pc}
	for k, v := range s.vars {
		n.vars[k] = v
	}
	return n
}

type Obligation struct {
	Name    string
	Kind    string
	Func    string
	Pos     string
	PC      Term
	Cond    Term
	NDecl   int
	NAssume int
	Desc    string
	Props   []string
	// filled by the solver stage
	Verdict string
	Solver  string
	Millis  int64
	Model   string
	Query   string
	Expect  string // "unsat" normally; "sat" for vacuity smoke checks
	vc      *VC
}

type retPoint struct {
	st   *State
	vals []Value
}

type loopCtx struct {
	label     string
	breaks    []*State
	continues []*State
	isSwitch  bool
}

type frame struct {
	fi       *FuncInfo
	fc       *FuncContract
	info     *types.Info
	pkgPath  string
	returns  []retPoint
	results  []*types.Var
	loops    []*loopCtx
	loopOrd  []int // counters for loop ordinals at each nesting level
	dynLoops int
	depth    int
	tsubst   map[string]types.Type
	sig      *types.Signature
	name     string
	labelFor map[ast.Stmt]string
	ghosts   map[string]Value
}

type VC struct {
	w       *World
	ss      *Sorts
	fi      *FuncInfo
	fc      *FuncContract
	decls   []string
	assumes []string
	obls    []*Obligation
	fresh   int
	frames  []*frame
	safety  bool
	checked bool // arithmetic: obligations at each site
	unsupported []string
	oblCount map[string]int
	entry   map[string]Value // parameter entry values by name
	ifaceFns map[string]bool
	globals map[types.Object]Term
	notes   []string
	callStack []string
	trustedCalls map[string]bool
	inlinedCalls map[string]bool
	havocCalls   map[string]bool
	contractCalls map[string]bool
	sp         *specState
	gdecls     []string
	gassumes   []string
	axiomsUsed []string
	dispatched map[string]bool
	anchorHits map[string]int
	loopDirect map[types.Object]bool // variables directly assigned in the loop being entered
	pureAx     map[string]bool
	repFacts   map[string]bool
	loopStack  []*loopRun
	inValInv   bool
	symCache   [][]string
	symMu      sync.Mutex
	pcTab      *pcDefTable
	pcScanned  int
}

func newVC(w *World, fi *FuncInfo, fc *FuncContract) *VC {
	vc := &VC{w: w, ss: newSorts(w), fi: fi, fc: fc, oblCount: map[string]int{}, entry: map[string]Value{},
		ifaceFns: map[string]bool{}, globals: map[types.Object]Term{},
		trustedCalls: map[string]bool{}, inlinedCalls: map[string]bool{}, havocCalls: map[string]bool{}, contractCalls: map[string]bool{}}
	vc.ss.rangeFn = vc.rangeFacts
	if fi != nil {
		vc.ss.pkg = fi.Pkg.PkgPath
	}
	return vc
}

func (vc *VC) cur() *frame { return vc.frames[len(vc.frames)-1] }

func (vc *VC) unsupportedf(pos token.Pos, format string, args ...interface{}) {
	msg := fmt.Sprintf(format, args...)
	if pos != token.NoPos {
		p := vc.w.fset.Position(pos)
		msg = fmt.Sprintf("%s:%d: %s", shortFile(p.Filename), p.Line, msg)
	}
	for _, u := range vc.unsupported {
		if u == msg {
			return
		}
	}
	vc.unsupported = append(vc.unsupported, msg)
}

func shortFile(f string) string {
	if i := strings.Index(f, "/repo/"); i >= 0 {
		return f[i+6:]
	}
	return f
}

func (vc *VC) freshName(hint string) string {
	vc.fresh++
	return fmt.Sprintf("%s!%d", sanitize(hint), vc.fresh)
}

// freshConst declares a new constant of the sort of Go type t and assumes its
// type-range facts.
func (vc *VC) freshConst(hint string, t types.Type) Term {
	s := vc.ss.sortOf(t)
	return vc.freshOfSort(hint, s, t)
}

func (vc *VC) freshOfSort(hint string, s Sort, t types.Type) Term {
	n := vc.freshName(hint)
	vc.decls = append(vc.decls, fmt.Sprintf("(declare-const %s %s)", n, s))
	tm := Term{n, s, t}
	if t != nil {
		if f := vc.rangeFacts(tm, t, 0); f.S != "true" {
			vc.assumes = append(vc.assumes, fmt.Sprintf("(assert %s)", f.S))
		}
	}
	return tm
}

// define introduces a named abbreviation for a term (keeps formulas small).
func (vc *VC) define(hint string, v Term) Term {
	if len(v.S) < 48 {
		return v
	}
	n := vc.freshName(hint)
	vc.decls = append(vc.decls, fmt.Sprintf("(declare-const %s %s)", n, v.Sort))
	vc.assumes = append(vc.assumes, fmt.Sprintf("(assert (= %s %s))", n, v.S))
	return Term{n, v.Sort, v.T}
}

func (vc *VC) assume(pc Term, f Term) {
	if f.S == "true" {
		return
	}
	vc.assumes = append(vc.assumes, fmt.Sprintf("(assert %s)", tImp(pc, f).S))
}

// rangeFacts: integer ranges and structural facts implied by the Go type.
func (vc *VC) rangeFacts(x Term, t types.Type, depth int) Term {
	if depth > 3 || t == nil {
		return tBool(true)
	}
	t = types.Unalias(t)
	if tp, ok := t.(*types.TypeParam); ok {
		if a, ok := vc.ss.tparams[tp.Obj().Name()]; ok {
			return vc.rangeFacts(x, a, depth)
		}
		switch integerConstraint(tp) {
		case "signed":
			return inRange(x, types.Typ[types.Int64])
		case "unsigned":
			return inRange(x, types.Typ[types.Uint64])
		case "integer":
			return Term{fmt.Sprintf("(and (<= (- 9223372036854775808) %s) (<= %s 18446744073709551615))", x.S, x.S), SBool, nil}
		}
		return tBool(true)
	}
	switch u := t.Underlying().(type) {
	case *types.Basic:
		if u.Info()&types.IsInteger != 0 {
			return inRange(x, u)
		}
	case *types.Struct:
		si := vc.ss.info[x.Sort]
		if si == nil || si.Kind != "struct" {
			return tBool(true)
		}
		var fs []Term
		for _, f := range si.Fields {
			ft := Term{fmt.Sprintf("(%s.%s %s)", x.Sort, f.Name, x.S), f.Sort, f.T}
			fs = append(fs, vc.rangeFacts(ft, f.T, depth+1))
		}
		// representation invariant of the struct type (`valinv`): holds for every
		// value that was not built by the function under verification itself
		if n, ok := t.(*types.Named); ok && n.Obj().Pkg() != nil && depth <= 1 && !vc.inValInv && !vc.ss.noValInv {
			for _, ti := range vc.w.cs.ValInvs {
				if ti.Pkg == n.Obj().Pkg().Path() && ti.Type == n.Obj().Name() {
					vc.inValInv = true
					env := &SpecEnv{vc: vc, vars: map[string]Value{}, old: map[string]Value{}, bound: map[string]Term{"self": x}, pkg: ti.Pkg}
					fs = append(fs, vc.specBool(ti.Clause.Expr, env))
					vc.inValInv = false
				}
			}
		}
		return tAnd(fs...)
	case *types.Slice:
		si := vc.ss.info[x.Sort]
		if si == nil || si.Kind != "slice" {
			return tBool(true)
		}
		fs := []Term{{fmt.Sprintf("(and (>= (len.%s %s) 0) (<= (len.%s %s) 4611686018427387904))", x.Sort, x.S, x.Sort, x.S), SBool, nil},
			{fmt.Sprintf("(=> (isnil.%s %s) (= (len.%s %s) 0))", x.Sort, x.S, x.Sort, x.S), SBool, nil}}
		es := vc.ss.sortOf(u.Elem())
		if lo, _ := intRange(u.Elem()); lo != nil && depth == 0 {
			el := Term{fmt.Sprintf("(select (arr.%s %s) i!)", x.Sort, x.S), es, u.Elem()}
			fs = append(fs, Term{fmt.Sprintf("(forall ((i! Int)) (! %s :pattern (%s)))", inRange(el, u.Elem()).S, el.S), SBool, nil})
		}
		return tAnd(fs...)
	case *types.Map:
		si := vc.ss.info[x.Sort]
		if si == nil || si.Kind != "map" {
			return tBool(true)
		}
		ks := vc.ss.sortOf(u.Key())
		// a Go map is a finite partial function: the cardinality is consistent
		// with the key set (no key without a positive count; nil map is empty)
		return tAnd(Term{fmt.Sprintf("(and (>= (card.%s %s) 0) (<= (card.%s %s) 4611686018427387904))", x.Sort, x.S, x.Sort, x.S), SBool, nil},
			Term{fmt.Sprintf("(=> (isnil.%s %s) (= (card.%s %s) 0))", x.Sort, x.S, x.Sort, x.S), SBool, nil},
			Term{fmt.Sprintf("(=> (= (card.%s %s) 0) (= (has.%s %s) ((as const (Array %s Bool)) false)))", x.Sort, x.S, x.Sort, x.S, ks), SBool, nil})
	case *types.Pointer:
		si := vc.ss.info[x.Sort]
		if si == nil || si.Kind != "ptr" {
			return tBool(true)
		}
		inner := Term{fmt.Sprintf("(val.%s %s)", x.Sort, x.S), vc.ss.sortOf(u.Elem()), u.Elem()}
		f := vc.rangeFacts(inner, u.Elem(), depth+1)
		if f.S == "true" {
			return f
		}
		return tImp(Term{fmt.Sprintf("((_ is ref.%s) %s)", x.Sort, x.S), SBool, nil}, f)
	}
	return tBool(true)
}

// oblige records a proof obligation.
func (vc *VC) oblige(kind, label string, pos token.Pos, pc, cond Term, desc string) *Obligation {
	if cond.S == "true" || pc.S == "false" {
		// trivially discharged syntactically: still count it
	}
	base := fmt.Sprintf("%s#%s", vc.fi.Key, kind)
	if label != "" {
		base += ":" + label
	}
	vc.oblCount[base]++
	name := base
	if n := vc.oblCount[base]; n > 1 || label == "" {
		name = fmt.Sprintf("%s:%d", base, n)
		if label != "" {
			name = fmt.Sprintf("%s~%d", base, n)
		}
	}
	p := ""
	if pos != token.NoPos {
		pp := vc.w.fset.Position(pos)
		p = fmt.Sprintf("%s:%d", shortFile(pp.Filename), pp.Line)
	}
	ob := &Obligation{Name: strings.TrimPrefix(name, modPath+"/"), Kind: kind, Func: vc.fi.Key, Pos: p, PC: pc, Cond: cond,
		NDecl: len(vc.decls), NAssume: len(vc.assumes), Desc: desc, Expect: "unsat", vc: vc}
	if vc.fc != nil {
		ob.Props = vc.fc.Props
	}
	vc.obls = append(vc.obls, ob)
	return ob
}

// mergeStates joins several states into one (phi via ite on path conditions).
func (vc *VC) mergeStates(sts []*State) *State {
	var live []*State
	for _, s := range sts {
		if s != nil && s.pc.S != "false" {
			live = append(live, s)
		}
	}
	if len(live) == 0 {
		return nil
	}
	if len(live) == 1 {
		return live[0]
	}
	out := &State{vars: map[types.Object]Value{}}
	var pcs []Term
	for _, s := range live {
		pcs = append(pcs, s.pc)
	}
	out.pc = vc.definePC(tOr(pcs...))
	// deterministic variable order
	seen := map[types.Object]bool{}
	var objs []types.Object
	for _, s := range live {
		for o := range s.vars {
			if !seen[o] {
				seen[o] = true
				objs = append(objs, o)
			}
		}
	}
	sort.Slice(objs, func(i, j int) bool {
		if objs[i].Pos() != objs[j].Pos() {
			return objs[i].Pos() < objs[j].Pos()
		}
		return objs[i].Name() < objs[j].Name()
	})
	for _, o := range objs {
		var vals []Value
		all := true
		for _, s := range live {
			v, ok := s.vars[o]
			if !ok {
				all = false
				break
			}
			vals = append(vals, v)
		}
		if !all {
			continue // variable not live on all paths (scoped to a branch)
		}
		same := true
		for _, v := range vals[1:] {
			if !sameValue(v, vals[0]) {
				same = false
				break
			}
		}
		if same {
			out.vars[o] = vals[0]
			continue
		}
		// all must be terms
		allTerms := true
		for _, v := range vals {
			if _, ok := v.(Term); !ok {
				allTerms = false
			}
		}
		if !allTerms {
			// different function values on different paths: the merged value is
			// an unknown function (calls through it are havoced)
			vc.ss.declareFn()
			out.vars[o] = vc.freshOfSort("fn", SFn, o.Type())
			continue
		}
		t0 := vals[0].(Term)
		acc := vals[len(vals)-1].(Term)
		for i := len(vals) - 2; i >= 0; i-- {
			vi, ok := vals[i].(Term)
			if !ok {
				continue
			}
			acc = tIte(live[i].pc, vi, acc)
		}
		acc.T = t0.T
		acc.Sort = t0.Sort
		out.vars[o] = vc.define(o.Name(), acc)
	}
	return out
}

func (vc *VC) definePC(pc Term) Term {
	if len(pc.S) < 64 {
		return pc
	}
	n := vc.freshName("pc")
	vc.decls = append(vc.decls, fmt.Sprintf("(declare-const %s Bool)", n))
	vc.assumes = append(vc.assumes, fmt.Sprintf("(assert (= %s %s))", n, pc.S))
	return Term{n, SBool, nil}
}

func sameValue(a, b Value) bool {
	ta, ok1 := a.(Term)
	tb, ok2 := b.(Term)
	if ok1 && ok2 {
		return ta.S == tb.S
	}
	if ok1 != ok2 {
		return false
	}
	return a == b
}
