package main

// Top-level verification of one function against its contract, and the
// construction of SMT queries.

import (
	"fmt"
	"go/ast"
	"go/types"
	"os"
	"regexp"
	"runtime/debug"
	"sort"
	"strings"
)

type FuncResult struct {
	Key         string
	Props       []string
	Obls        []*Obligation
	Unsupported []string
	Notes       []string
	Inlined     []string
	Havoced     []string
	ByContract  []string
	Trusted     bool
	vc          *VC
}

type specState struct {
	used     map[string]bool
	progress map[string]bool
	recur    map[string]bool
	decls    []string
	defs     []string
	axDone   map[*Axiom]bool
}

func (vc *VC) specs() *specState {
	if vc.sp == nil {
		vc.sp = &specState{used: map[string]bool{}, progress: map[string]bool{}, recur: map[string]bool{}, axDone: map[*Axiom]bool{}}
	}
	return vc.sp
}

// useSpec makes sure the spec function is declared/defined in this VC.
func (vc *VC) useSpec(sf *SpecFunc) {
	sp := vc.specs()
	if sp.used[sf.Name] {
		return
	}
	if sp.progress[sf.Name] {
		sp.recur[sf.Name] = true
		return
	}
	sp.progress[sf.Name] = true
	var params []string
	var sorts []string
	env := &SpecEnv{vc: vc, vars: map[string]Value{}, old: map[string]Value{}, bound: map[string]Term{}, pkg: sf.Pkg}
	var args []Term
	for _, p := range sf.Params {
		s, gt := vc.specSort(p.Type, sf.Pkg)
		name := p.Name + "?"
		params = append(params, fmt.Sprintf("(%s %s)", name, s))
		sorts = append(sorts, string(s))
		tm := Term{name, s, gt}
		env.bound[p.Name] = tm
		args = append(args, tm)
	}
	rs, _ := vc.specSort(sf.Ret, sf.Pkg)
	name := "sp." + sf.Name
	if sf.Body == nil {
		sp.decls = append(sp.decls, fmt.Sprintf("(declare-fun %s (%s) %s)", name, strings.Join(sorts, " "), rs))
	} else {
		body := vc.spec(sf.Body, env)
		if body.Sort == "Nil" {
			body = vc.ss.zeroOfSort(rs, nil)
		}
		if sp.recur[sf.Name] || (len(params) > 0 && vc.w.patSpecs()[sf.Name] && hasQuant(sf.Body)) {
			sp.decls = append(sp.decls, fmt.Sprintf("(declare-fun %s (%s) %s)", name, strings.Join(sorts, " "), rs))
			ap := app(name, args...)
			sp.defs = append(sp.defs, fmt.Sprintf("(assert (forall (%s) (! (= %s %s) :pattern (%s))))", strings.Join(params, " "), ap, body.S, ap))
		} else if len(params) == 0 {
			sp.defs = append(sp.defs, fmt.Sprintf("(define-fun %s () %s %s)", name, rs, body.S))
		} else {
			sp.defs = append(sp.defs, fmt.Sprintf("(define-fun %s (%s) %s %s)", name, strings.Join(params, " "), rs, body.S))
		}
	}
	delete(sp.progress, sf.Name)
	sp.used[sf.Name] = true
	// axioms that mention this function
	for _, ax := range vc.w.cs.Axioms {
		if sp.axDone[ax] {
			continue
		}
		if mentions(ax.Expr, sf.Name) {
			sp.axDone[ax] = true
			aenv := &SpecEnv{vc: vc, vars: map[string]Value{}, old: map[string]Value{}, bound: map[string]Term{}, pkg: ax.Pkg}
			t := vc.specBool(ax.Expr, aenv)
			sp.defs = append(sp.defs, fmt.Sprintf("(assert %s) ; axiom %s", t.S, ax.Name))
			vc.axiomsUsed = append(vc.axiomsUsed, ax.Name)
		}
	}
}

func mentions(e CExpr, name string) bool {
	found := false
	var walk func(e CExpr)
	walk = func(e CExpr) {
		if found || e == nil {
			return
		}
		switch x := e.(type) {
		case CCall:
			if x.Fn == name {
				found = true
				return
			}
			if x.Recv != nil {
				walk(x.Recv)
			}
			for _, a := range x.Args {
				walk(a)
			}
		case CIdent:
			if x.Name == name {
				found = true
			}
		case CSel:
			walk(x.X)
		case CIndex:
			walk(x.X)
			walk(x.I)
		case CSlice:
			walk(x.X)
			walk(x.Lo)
			walk(x.Hi)
		case CUnary:
			walk(x.X)
		case CBinary:
			walk(x.X)
			walk(x.Y)
		case CCond:
			walk(x.C)
			walk(x.A)
			walk(x.B)
		case CQuant:
			walk(x.Body)
			for _, p := range x.Pats {
				for _, pe := range p {
					walk(pe)
				}
			}
		case COld:
			walk(x.X)
		case CLet:
			walk(x.Val)
			walk(x.Body)
		case CIs:
			walk(x.X)
		case CAssert:
			walk(x.X)
		}
	}
	walk(e)
	return found
}

// verifyFunc generates all obligations for one function under contract.
func verifyFunc(w *World, fi *FuncInfo, fc *FuncContract, sweep bool) (res *FuncResult) {
	vc := newVC(w, fi, fc)
	res = &FuncResult{Key: fi.Key, vc: vc}
	if fc != nil {
		res.Props = fc.Props
		vc.checked = fc.Arith == "checked"
		vc.safety = fc.Safety || (sweep && !fc.NoSafety)
	} else {
		vc.safety = sweep
	}
	defer func() {
		if r := recover(); r != nil {
			if os.Getenv("GOVC_TRACE") != "" {
				fmt.Fprintf(os.Stderr, "%s\n", debug.Stack())
			}
			vc.unsupportedf(fi.Decl.Pos(), "engine panic: %v", r)
			res.Obls = vc.obls
			res.Unsupported = vc.unsupported
		}
	}()
	sig := fi.Obj.Type().(*types.Signature)
	fr := &frame{fi: fi, fc: fc, info: fi.Pkg.TypesInfo, pkgPath: fi.Pkg.PkgPath, sig: sig, name: fi.Key}
	vc.frames = []*frame{fr}
	st := &State{vars: map[types.Object]Value{}, pc: tBool(true)}
	info := fi.Pkg.TypesInfo
	// receiver
	type pinfo struct {
		name string
		obj  *types.Var
		ptr  bool
	}
	var params []pinfo
	if fi.Decl.Recv != nil && len(fi.Decl.Recv.List) > 0 {
		rt := sig.Recv().Type()
		_, isPtr := rt.(*types.Pointer)
		name := "self"
		var obj *types.Var
		if len(fi.Decl.Recv.List[0].Names) > 0 {
			obj, _ = info.Defs[fi.Decl.Recv.List[0].Names[0]].(*types.Var)
			if obj != nil && obj.Name() != "_" {
				name = obj.Name()
			}
		}
		v := vc.freshConst(name, rt)
		if isPtr {
			// methods are called on non-nil receivers unless the contract says otherwise
			if si := vc.ss.info[v.Sort]; si != nil && si.Kind == "ptr" {
				vc.assume(tBool(true), Term{fmt.Sprintf("((_ is ref.%s) %s)", v.Sort, v.S), SBool, nil})
			} else if si != nil && si.Kind == "opaque" {
				vc.assume(tBool(true), tNot(vc.isNil(v, fi.Decl.Pos())))
			}
		}
		if obj != nil {
			st.vars[obj] = v
		}
		vc.entry[name] = v
		vc.entry["self"] = v
		params = append(params, pinfo{name, obj, isPtr})
	}
	pnames := vc.paramNames(fc, sig)
	idx := 0
	if fi.Decl.Type.Params != nil {
		for _, fld := range fi.Decl.Type.Params.List {
			n := len(fld.Names)
			if n == 0 {
				n = 1
			}
			for k := 0; k < n; k++ {
				pt := sig.Params().At(idx).Type()
				v := vc.freshConst(pnames[idx], pt)
				var obj *types.Var
				if len(fld.Names) > 0 {
					obj, _ = info.Defs[fld.Names[k]].(*types.Var)
				}
				if obj != nil {
					st.vars[obj] = v
				}
				vc.entry[pnames[idx]] = v
				_, isPtr := vc.underlying(pt).(*types.Pointer)
				params = append(params, pinfo{pnames[idx], obj, isPtr})
				idx++
			}
		}
	}
	if fi.Decl.Type.Results != nil {
		for _, fld := range fi.Decl.Type.Results.List {
			for _, n := range fld.Names {
				obj, _ := info.Defs[n].(*types.Var)
				if obj != nil {
					fr.results = append(fr.results, obj)
					st.vars[obj] = vc.ss.zero(obj.Type())
				}
			}
		}
	}
	// preconditions
	preEnv := &SpecEnv{vc: vc, vars: map[string]Value{}, old: map[string]Value{}, pkg: fi.Pkg.PkgPath}
	for k, v := range vc.entry {
		preEnv.vars[k] = v
		preEnv.old[k] = v
	}
	if fc != nil {
		for _, rq := range fc.Requires {
			vc.assume(tBool(true), vc.specBool(rq.Expr, preEnv))
		}
	}
	if fc != nil && len(fc.Requires) > 0 {
		ob := vc.oblige("vac:pre-sat", "", fi.Decl.Pos(), tBool(true), tBool(false), "preconditions and type invariants are satisfiable")
		ob.Expect = "sat"
	}
	if fc != nil && fc.IterCanonical {
		ok, why := iterCanonical(fi)
		vc.oblige("iter-canonical", "", fi.Decl.Pos(), tBool(true), tBool(ok), "iterator has the canonical range-and-yield shape: "+why)
		res.Obls = vc.obls
		return res
	}
	if fi.Decl.Body == nil {
		res.Unsupported = append(vc.unsupported, "no body")
		return res
	}
	end := vc.execBlock(fi.Decl.Body.List, st)
	if end != nil {
		fr.returns = append(fr.returns, retPoint{st: end})
	}
	vc.checkAnchors(fc)
	vc.checkSliceAliasing(fi)
	// postconditions
	rnames := vc.resultNames(fc, sig)
	// a pointer parameter whose variable is rebound in the body (p = f(p)) no
	// longer names the caller's object: postconditions then speak about the
	// entry value (the callee contracts used say what happened to the object)
	rebound := map[types.Object]bool{}
	ast.Inspect(fi.Decl.Body, func(n ast.Node) bool {
		if as, ok := n.(*ast.AssignStmt); ok {
			for _, l := range as.Lhs {
				if id, ok := ast.Unparen(l).(*ast.Ident); ok {
					if o := info.ObjectOf(id); o != nil {
						rebound[o] = true
					}
				}
			}
		}
		return true
	})
	if fc != nil {
		for ei, en := range fc.Ensures {
			var conj, pcs, posts []Term
			for _, rp := range fr.returns {
				env := &SpecEnv{vc: vc, vars: map[string]Value{}, old: map[string]Value{}, pkg: fi.Pkg.PkgPath}
				for k, v := range vc.entry {
					env.vars[k] = v
					env.old[k] = v
				}
				for _, p := range params {
					if (p.ptr || (fc != nil && contains(fc.Modifies, p.name))) && p.obj != nil && !rebound[p.obj] {
						if v, ok := rp.st.vars[p.obj]; ok {
							env.vars[p.name] = v
							if p.name == fiRecvName(fi) {
								env.vars["self"] = v
							}
						}
					}
				}
				for i, n := range rnames {
					if i < len(rp.vals) {
						env.vars[n] = rp.vals[i]
					}
				}
				if len(rp.vals) == 1 {
					env.vars["result"] = rp.vals[0]
				}
				post := vc.specBool(en.Expr, env)
				conj = append(conj, tImp(rp.st.pc, post))
				pcs = append(pcs, rp.st.pc)
				posts = append(posts, post)
			}
			label := en.Name
			if label == "" {
				label = fmt.Sprint(ei + 1)
			}
			if len(conj) > 6 {
				// many return points (large switches): one obligation per return
				// point keeps each query small
				for ri := range conj {
					pos := fi.Decl.Pos()
					vc.oblige("post", fmt.Sprintf("%s@ret%d", label, ri+1), pos, pcs[ri], posts[ri], en.Src)
				}
				continue
			}
			vc.oblige("post", label, fi.Decl.Pos(), tBool(true), tAnd(conj...), en.Src)
		}
	}
	// smoke test: some return point must be reachable under the assumptions
	if len(fr.returns) > 0 && fc != nil && (len(fc.Ensures) > 0 || len(fc.Requires) > 0) {
		var pcs []Term
		for _, rp := range fr.returns {
			pcs = append(pcs, rp.st.pc)
		}
		ob := vc.oblige("vac:smoke", "", fi.Decl.Pos(), tOr(pcs...), tBool(false), "`ensures false` must not be provable (assumptions are consistent, a return is reachable)")
		ob.Expect = "sat"
	}
	res.Obls = vc.obls
	res.Unsupported = vc.unsupported
	res.Notes = vc.notes
	for k := range vc.inlinedCalls {
		res.Inlined = append(res.Inlined, k)
	}
	for k := range vc.havocCalls {
		res.Havoced = append(res.Havoced, k)
	}
	for k := range vc.contractCalls {
		res.ByContract = append(res.ByContract, k)
	}
	sort.Strings(res.Inlined)
	sort.Strings(res.Havoced)
	sort.Strings(res.ByContract)
	return res
}

// verifyLemma: a formula over spec functions, proved from the axioms and the
// (dispatched) contracts it mentions. It is an obligation, never an assumption.
func verifyLemma(w *World, lm *Lemma) (res *FuncResult) {
	fc := &FuncContract{Key: "lemma." + lm.Name, Pkg: lm.Pkg, Name: lm.Name, Dispatch: lm.Dispatch, Props: []string{lm.Prop}, Loops: map[string]*LoopSpec{}}
	vc := newVC(w, nil, fc)
	vc.ss.pkg = lm.Pkg
	res = &FuncResult{Key: "lemma " + lm.Name, vc: vc, Props: fc.Props}
	defer func() {
		if r := recover(); r != nil {
			vc.unsupportedf(0, "engine panic in lemma %s: %v", lm.Name, r)
			res.Unsupported = vc.unsupported
		}
	}()
	env := &SpecEnv{vc: vc, vars: map[string]Value{}, old: map[string]Value{}, bound: map[string]Term{}, pkg: lm.Pkg}
	// the outermost universal quantifier is skolemised by the generator, so
	// that the contracts of recursive pure functions can be instantiated on the
	// ground terms of the goal (see pureResult)
	expr := lm.Expr
	if q, ok := expr.(CQuant); ok && q.Forall {
		for _, p := range q.Vars {
			s, gt := vc.specSort(p.Type, env.pkg)
			sk := vc.freshOfSort(p.Name, s, gt)
			env.bound[p.Name] = sk
			vc.entry[p.Name] = sk // visible to the region of a known finding
		}
		expr = q.Body
	}
	c := vc.specBool(expr, env)
	pkgShort := strings.TrimPrefix(lm.Pkg, modPath+"/")
	ob := &Obligation{Name: pkgShort + ".lemma." + lm.Name, Kind: "lemma", Func: "lemma " + lm.Name, Pos: fmt.Sprintf("%s:%d", shortFile(lm.File), lm.Line),
		PC: tBool(true), Cond: c, NDecl: len(vc.decls), NAssume: len(vc.assumes), Desc: lm.Src, Expect: "unsat", vc: vc, Props: fc.Props}
	smoke := &Obligation{Name: pkgShort + ".lemma." + lm.Name + "#vac:smoke", Kind: "vac:smoke", Func: "lemma " + lm.Name, Pos: ob.Pos,
		PC: tBool(true), Cond: tBool(false), NDecl: len(vc.decls), NAssume: len(vc.assumes), Desc: "the axioms used by the lemma are consistent", Expect: "sat", vc: vc}
	vc.obls = []*Obligation{ob, smoke}
	res.Obls = vc.obls
	res.Unsupported = vc.unsupported
	return res
}

func fiRecvName(fi *FuncInfo) string {
	if fi.Decl.Recv != nil && len(fi.Decl.Recv.List) > 0 && len(fi.Decl.Recv.List[0].Names) > 0 {
		return fi.Decl.Recv.List[0].Names[0].Name
	}
	return "self"
}

var litRe = regexp.MustCompile(`lit\.(\d+)`)

// buildQuery assembles the SMT-LIB script for one obligation.
func (vc *VC) buildQuery(ob *Obligation, wantModel bool) string {
	var sb strings.Builder
	sb.WriteString("; obligation " + ob.Name + "\n; " + ob.Desc + "\n")
	if wantModel {
		sb.WriteString("(set-option :produce-models true)\n")
	}
	sb.WriteString("(set-logic ALL)\n")
	body := vc.queryBody(ob)
	// string literals actually used
	sb.WriteString(prelude)
	sb.WriteString(vc.ss.decls())
	used := map[int]bool{}
	for _, m := range litRe.FindAllStringSubmatch(body, -1) {
		var id int
		fmt.Sscan(m[1], &id)
		used[id] = true
	}
	var ids []int
	for id := range used {
		ids = append(ids, id)
	}
	sort.Ints(ids)
	for _, id := range ids {
		v := vc.w.strOrder[id]
		fmt.Fprintf(&sb, "(declare-const lit.%d Str) ; %q\n(assert (= (gs.len lit.%d) %d))\n", id, v, id, len(v))
		for k := 0; k < len(v) && k < 64; k++ {
			fmt.Fprintf(&sb, "(assert (= (gs.at lit.%d %d) %d))\n", id, k, v[k])
		}
	}
	if len(ids) > 1 {
		sb.WriteString("(assert (distinct")
		for _, id := range ids {
			fmt.Fprintf(&sb, " lit.%d", id)
		}
		sb.WriteString("))\n")
	}
	sb.WriteString(body)
	sb.WriteString("(check-sat)\n")
	if wantModel {
		sb.WriteString("(get-model)\n")
	}
	return sb.String()
}

func (vc *VC) queryBody(ob *Obligation) string {
	var sb strings.Builder
	sp := vc.specs()
	for _, d := range vc.gdecls {
		sb.WriteString(d + "\n")
	}
	for _, d := range sp.decls {
		sb.WriteString(d + "\n")
	}
	for _, d := range sp.defs {
		sb.WriteString(d + "\n")
	}
	for _, d := range vc.ss.late {
		sb.WriteString(d + "\n")
	}
	for _, d := range vc.gassumes {
		sb.WriteString(d + "\n")
	}
	// cone of influence: only assumptions connected to the goal through local
	// symbols (name!N constants) are included. Dropping assumptions can only
	// weaken the hypotheses, never make an invalid obligation provable.
	goal := fmt.Sprintf("(assert %s)\n(assert (not %s))\n", ob.PC.S, ob.Cond.S)
	rel := map[string]bool{}
	for _, m := range localSymRe.FindAllString(goal, -1) {
		rel[m] = true
	}
	for _, v := range vc.entry {
		if t, ok := v.(Term); ok {
			for _, m := range localSymRe.FindAllString(t.S, -1) {
				rel[m] = true // inputs stay declared (models are read back for replay)
			}
		}
	}
	assumes := vc.assumes[:ob.NAssume]
	syms := vc.assumeSyms(ob.NAssume)
	included := make([]bool, len(assumes))
	// facts guarded by a path condition that contradicts the goal's path
	// condition (another arm of a switch, the other branch of an if) cannot
	// contribute: they are skipped
	excluded := make([]bool, len(assumes))
	pcd := vc.pcDefs(ob.NAssume)
	goalLits := pcd.literals(ob.PC.S, 0)
	for i, a := range assumes {
		if g := guardOf(a); g != "" {
			if conflict(goalLits, pcd.literals(g, 0)) {
				excluded[i] = true
			}
		}
	}
	for changed := true; changed; {
		changed = false
		for i := range assumes {
			if included[i] || excluded[i] {
				continue
			}
			ss := syms[i]
			hit := len(ss) == 0
			if d := definedSym(assumes[i]); d != "" {
				// a definition `x!n = term` matters only if x!n is used
				hit = rel[d]
			} else {
				for _, s := range ss {
					if rel[s] {
						hit = true
						break
					}
				}
			}
			if hit {
				included[i] = true
				changed = true
				for _, s := range ss {
					rel[s] = true
				}
			}
		}
	}
	sb.WriteString("; @core\n")
	for _, d := range vc.decls[:ob.NDecl] {
		if m := localSymRe.FindString(d); m != "" && !rel[m] {
			continue
		}
		sb.WriteString(d + "\n")
	}
	for i, a := range assumes {
		if included[i] {
			sb.WriteString(a + "\n")
		}
	}
	sb.WriteString(goal)
	return sb.String()
}

var localSymRe = regexp.MustCompile(`[A-Za-z_.$'][A-Za-z0-9_.$']*![0-9]+`)

// assumeSyms caches the local symbols of each assumption.
func (vc *VC) assumeSyms(n int) [][]string {
	vc.symMu.Lock()
	defer vc.symMu.Unlock()
	for len(vc.symCache) < n {
		a := vc.assumes[len(vc.symCache)]
		seen := map[string]bool{}
		var out []string
		for _, m := range localSymRe.FindAllString(a, -1) {
			if !seen[m] {
				seen[m] = true
				out = append(out, m)
			}
		}
		vc.symCache = append(vc.symCache, out)
	}
	return vc.symCache[:n]
}

var _ = ast.Inspect
