#!/usr/bin/env python3
"""Regenerates MANIFEST.json from the table below (kept in one place so that
the manifest stays valid while properties are added)."""
import json, subprocess

claimed = {
 "C01": dict(text="Deductive proof, one contract per evaluator node (all operators, literals, variables, extension functions and the AST-to-evaluator wiring ToEval), that Eval returns the value the Cedar semantics defines in terms of the results of its operands on the same environment, and an error exactly in the specified cases (operand error first in source order, then type error, overflow, missing attribute/tag/entity, arity); checked arithmetic equals mathematical arithmetic on all 2^64 operands.",
             note="The specification is the contract text itself (written from the property statement and the Cedar operator table), not the Lean model. Set/record values are used through observer contracts (membership up to Equal, lookup); decimal/ip/datetime parsing of literal strings is covered to the extent of the C12 contracts; `like` matching and `in` reachability are separate contracts (C03). Trusted: govc VC generator, z3/cvc5, Go type checker.",
             ref="DESIGN.md §6 C01"),
 "C12": dict(text="Deductive proof that decimal/duration constructors, parsers' integer arithmetic and conversions are exact or return an error (no silent wrap) for all inputs; formatting/byte-level round trips are not covered.",
             note="strconv/strings/time callees are used through assumed contracts (contracts/stdlib.spec); text produced by fmt/strconv is opaque. One known finding (Duration(MinInt64).String()).",
             ref="DESIGN.md §6 C12"),
}
claimed.update({
 "C02": dict(text="Deductive proof of cedar.Authorize against the decision rule of the property (default deny, forbid overrides, erroring policies skipped; reasons and errors as sets with their positions), by loop invariants over an arbitrarily ordered enumeration of the policy collection; PolicySet.IsAuthorized is proved to be Authorize on the set's contents. The link from a policy to 'satisfied' is under contract as well: Compile runs ToEval(PolicyToNode(foldPolicy p)), PolicyToNode is the right-nested conjunction of the scope tests and the conditions in order, and ten lemmas state when that expression is satisfied (every conjunct; when: body true; unless: body false; scope ==, in, in-set, is, is-in against the request part).",
             note="The induction along the conjunction that combines the step lemmas is applied outside the solver; folding (C04) is what lets the lemmas speak about the unfolded expression. Policy ids yielded by a user iterator are assumed distinct. Trusted: Go map range semantics, iterator shape check (iter-canonical).",
             ref="DESIGN.md §6 C02"),
 "C20": dict(text="Deductive proof, per operation, that PolicySet behaves as the id->policy map p.policies (New, Get, Add, Remove, Map, All, IsAuthorized, UnmarshalJSON, MarshalCedar's sorted id list): refinement of a map model for every pre-state, hence for every finite history; loading a document (NewPolicySetFromBytes) assigns exactly the ids policy0..policy(n-1) in document order to the parsed list and NewPolicyListFromBytes sets the given file name in every policy's position.",
             note="The zero PolicySet{} (nil map) is excluded by precondition of Add. Assumed: the decimal rendering of distinct non-negative integers is distinct (policyN injective); PolicyList.UnmarshalCedar returns non-nil policies (trusted: the parser's functional behaviour is not under contract). Copy semantics between a PolicySet and the maps handed out are covered by the C19 frame/no-leak proofs.",
             ref="DESIGN.md §6 C20"),
 "C03": dict(text="Deductive proof that the hierarchy search (entityInOne, entityInSet) returns true exactly when the target is reachable: soundness by an invariant over the visited set, completeness by exhibiting a set closed under the parent relation that contains the start and excludes the target (induction principle of the closure stated as an axiom); termination on every graph by a lexicographic loop measure (stored entities not yet marked, stack height); the scope forms decided by the partial evaluator (partialScopeEval: ==, in, in-set sound and complete, is, is-in) agree with the operator; mapset operations against their set view.",
             note="reach is axiomatised (reflexive, closed under edges, least: closure-induction axiom). The termination measure counts stored entities, i.e. assumes a finite store (three cardinality facts are axioms). The scope forms of the *compiled* policy are the C02 contracts of scopeToNode plus the evaluator contracts of ==, in, is. EntityGetter.Get is assumed deterministic. One recorded finding shared with C14 (error message of `x in <set>`).",
             ref="DESIGN.md §6 C03"),
 "C10": dict(text="Deductive panic-freedom sweep (index/slice bounds, nil dereference incl. pointers into recursive structures, type assertions, explicit panics, nil-map writes; loop termination measures where stated) of: the whole Cedar text parser (cedar_unmarshal.go) under the parser representation invariant, the Cedar text encoder (cedar_marshal.go) for every well-formed AST, the JSON policy decoder's node conversion (json_unmarshal.go), the whole types package apart from two floating-point helpers (value JSON decoder incl. the empty byte string, sets, records, entities, entity maps, scalars and their parsers and printers; stored values assumed non-nil), the schema-guided entity/value decoder (x/exp/types), the schema text lexer and PolicySet.UnmarshalJSON; holds for every token list / input string / decoded document.",
             note="Covers the functions listed in evidence only (245). Not covered: Policy.UnmarshalJSON and nodeJSON.UnmarshalJSON themselves (outside the subset), JSON encoders, entity/value/schema JSON, tokenizer, stack depth of the recursive-descent parser and of ToNode. Assumed: Tokenize returns a list ending in EOF; the encoder's input tree has no nil children and consists of x/exp/ast node types (sweep option wellformed); encoding/json.Unmarshal results are arbitrary values of the target types.",
             ref="DESIGN.md §6 C10"),
 "C19": dict(text="Frame proof (syntactic assigns/modifies analysis, transitive over callees) that the read-only entry points (Authorize, IsAuthorized, Marshal*, accessors) write only memory they allocated themselves; two calls that only read shared memory cannot race and a function of immutable inputs returns what it would return alone.",
             note="Concurrency itself (interleavings, the race detector) is outside this technique; the frame condition is the sufficient condition decided here. Interface methods and unlisted standard-library callees are assumed not to write through their arguments.",
             ref="DESIGN.md §6 C19"),
})
claimed.update({
 "C04": dict(text="Deductive proof that fold returns, for every node kind, either the node rebuilt from its folded children or - only when every child folded to a literal, the operator is not one that consults the request or the entity store, and evaluating exactly the evaluator ToEval would build on those literals succeeds - that literal result; per-operator lemmas then prove that this preserves the evaluation result on every environment given the same for the children, and three lemmas carry it along the conjunction PolicyToNode builds. foldPolicy is proved to work on a copy (frame + field-wise postcondition) and Compile to run exactly ToEval(PolicyToNode(foldPolicy(p))).",
             note="The structural induction over expression trees / condition lists that combines the per-node lemmas is applied outside the solver (each step is a discharged obligation, the schema is not). Extension calls, set and record literals: only the shape of the rebuilt node is proved, not the folded value. Text/JSON forms unchanged follows from the frame proof of foldPolicy/Compile (the stored AST is not written); the encoders themselves are not under contract.",
             ref="DESIGN.md §6 C04"),
 "C11": dict(text="Deductive proof (a) of the representation invariant of types.Set - an open-addressing hash table in a Go map with wrap-around probing - established by NewSet for every argument sequence and assumed for every Set value (NewSet is the only constructor), under which Set.Contains is exactly 'some stored value is Equal to x' and NewSet(v...) holds exactly the members of v up to Equal, without duplicates, whatever the order and repetitions; (b) of the per-type Equal methods against structural equality for the scalar value types with lemmas for reflexivity/symmetry/transitivity/type-distinction (incl. the hash-collision universe); (c) of the mapset container against its set view; (d) a frame proof that constructors/accessors of values copy what they are given or hand out (immutability).",
             note="Assumed, not proved by the solver: Equal is an equivalence that agrees with hash on all values (proved for scalars; for nested sets/records by induction on depth, outside the solver). Not under contract: completeness of Set.Equal/Record.Equal (needs hash sums over equal sets), the cached hash of Record/Set, subset operators' cardinalities, text/JSON round trip of equal values. Termination of the probe loops is not proved.",
             ref="DESIGN.md §6 C11"),
 "C14": dict(text="Deductive proof that the map-backed encoders under contract (Record/Set MarshalCedar and MarshalJSON, PolicySet.MarshalCedar) emit their elements in sorted key order - sortedness and completeness of the key list asserted after the sort for every map iteration order - and that a record literal evaluates its attributes in sorted key order (first error is order-independent).",
             note="Only the order-determining step is proved; the bytes written for each element (fmt/strconv/encoding/json) are opaque to the contract logic. Determinism of Authorize's decision/reason/error sets is the C02 proof (set-based specification, independent of enumeration order). Entity map, schema and policy JSON encoders are not under contract.",
             ref="DESIGN.md §6 C14"),
 "C16": dict(text="Slice: deductive proof of panic-freedom and totality of Validator.typeOfValue for every value (including set, record and extension literals decoded from JSON), and of termination and panic-freedom of the walk over a possibly cyclic entity-type hierarchy (isEntityDescendantFrom: recursion measure = number of schema entity types not yet seen).",
             note="Resolution (cycle detection for common types and action groups), isActionDescendant (terminates only because the resolver rejects action cycles - a cross-function invariant not under contract) and the rest of the type checker are unverified surroundings. The three facts about the measure (finite-set cardinality) are axioms.",
             ref="DESIGN.md §6 C16"),
 "C05": dict(text="Slice: deductive proof (a) that the decision rule batch applies to the residual policies (isAuthorized) is the rule of cedar.Authorize - decision, reasons and errors as sets, for every policy map and every enumeration order; (b) that every residual policy is compiled exactly as cedar.Policy compiles it (batchCompile: ToEval(PolicyToNode(foldPolicy p))); (c) that substitution (cloneSub) replaces the variable itself and, inside a record, the variable at every key, leaving other keys and the key set unchanged (one genuine defect found and repaired here); (d) that an enumeration level restores the evaluator state (residual policies, substitution, environment) when it returns normally; (e) frame: batch.Authorize writes only memory it allocated (under C19).",
             note="Not under contract: the enumeration itself (callback invoked exactly once per element of the Cartesian product, in which order, with which Values map), cancellation and callback errors, variable discovery and the unbound/unused checks, substitution inside sets, doPartial/fixIgnores beyond their frame, and the link residual-policy semantics = original semantics (that is C06, with its recorded finding). Aliasing between the Values maps of recursion levels is not modelled (maps are values in the logic).",
             ref="DESIGN.md §6 C05"),
 "C06": dict(text="Deductive proof (a) that the partial evaluator decides a scope clause exactly when the request part is a concrete entity, with the verdict of the full semantics (equality, reachability incl. the set form - sound and complete -, type tests); (b) of the structure of partial() for 27 node kinds and of partialAnd/Or/IfThenElse: children are processed in source order, the first error other than 'depends on an unknown' decides, an operator is evaluated only when every child became a literal and then with exactly the evaluator of the full semantics (ToEval), an unknown result keeps the rebuilt node, otherwise the node is rebuilt; (c) per-operator lemmas that a literal placed in the residual is fully known when the operands, the policy literals and the entity store are, and that an operator's result on literal operands depends on the environment only through the entity store - hence is the same under every completion of the request.",
             note="Known finding (recorded, not repaired): a request part that is a composite value with an unknown nested inside is treated as a literal, so whole-value operators (contains, ==, ...) are evaluated while unknown - PartialPolicy drops a policy that a completion satisfies; the lemma for request variables is proved outside that region only. Not under contract: Has, extension calls, set and record literals inside partial (shape only / nothing), PartialPolicy's condition loop (keep/drop, error embedding, ignore semantics). The induction over the expression tree that combines the per-operator lemmas is applied outside the solver.",
             ref="DESIGN.md §6 C06"),
 "C15": dict(text="Slice: deductive proof that the validator accepts a comparison (<, <=, >, >=) only if both operand types are one and the same comparable type, which is the condition under which the evaluator's comparison cannot raise a type error (one genuine defect found and repaired here); and that the capability sets that license attribute accesses after `has` guards are sets with exact add / intersect / membership (a capability survives a join only if both sides established it).",
             note="Four function contracts (Validator.typeOfComparison over an opaque typeOfExpr; capabilitySet.has/add/intersect). Validator soundness as a whole - every operator, capabilities, request environments, entity store conformance - is a type-soundness theorem outside function-level contracts; everything else in the validator is unverified surroundings. Assumed: Unwrap() []error of joined errors has no nil entries.",
             ref="DESIGN.md §6 C15"),
})
na = {}
props = [json.loads(l) for l in open('properties.jsonl')]
for p in props:
    if p['id'] not in claimed:
        na[p['id']] = "not yet claimed in this revision: contracts for the functions this property depends on are still being written (see DESIGN.md §6); will be claimed or declared not applicable with the final reason"
na["C13"] = "decided by the bytes encoding/json reads and writes and by reflection-driven struct-tag handling; formatters and encoding/json are opaque to the contract logic, so no contract within reach of the generator can express 'the JSON text of v' (DESIGN.md §7)"
na["C17"] = "string-level round trip of an 850-line schema text parser against a 350-line printer plus a JSON codec; byte-level formatting is opaque to the contract logic (DESIGN.md §7); crash/termination aspects are claimed under C16"

m = {
 "version": 1,
 "setup_cmd": "cd /verif/engine && GOFLAGS=-mod=vendor GOPROXY=off GOSUMDB=off GOTOOLCHAIN=local go build -o /verif/bin/govc .",
 "hooks": {
   "guard": "verif",
   "enable": "go build tag `verif` (go/packages is run with -tags=verif; the hook files are comment-only zz_contracts_verif.go files holding the //@ contracts)",
   "baseline_off_cmd": "cd /repo && GOFLAGS=-mod=mod GOPROXY=off GOSUMDB=off go test -json -vet=off -count=1 -timeout 25m ./...",
   "source_commits": subprocess.run(["git","-C","/repo","log","--format=%h","--grep=^verif:"],capture_output=True,text=True).stdout.split(),
   "add_only": True,
 },
 "engines": [{"name": "govc", "path": "/verif/engine", "serves_properties": sorted(claimed),
              "kind_free_text": "verification-condition generator for Go (typed AST, forward symbolic execution with loop invariants and calls by contract) + z3 5.1/4.8.12 + cvc5; contracts are //@ comments in /repo/**/zz_contracts_verif.go"}],
 "checks": [],
 "not_applicable": [{"property_id": k, "reason": v} for k, v in sorted(na.items())],
 "notes": "All checks are `./check <id>`; evidence is written by govc itself. Known findings: /verif/KNOWN_FINDINGS.txt. Seeded changes: /verif/seeded/.",
}
for pid in sorted(claimed):
    c = claimed[pid]
    m["checks"].append({
      "property_id": pid,
      "quick_cmd": f"./check {pid} --tier quick",
      "thorough_cmd": f"./check {pid} --tier thorough",
      "evidence_file": f"/verif/evidence/{pid}.json",
      "replay_cmd_template": f"./check {pid} --replay {{path}}",
      "engine": "govc",
      "level_claimed": {"category": "proof", "text": c["text"], "design_ref": c["ref"]},
      "level_note": c["note"],
      "technique": "contract-based deductive verification: weakest-precondition style VCs generated from /repo's typed AST against //@ contracts, discharged by z3/cvc5",
    })
json.dump(m, open('MANIFEST.json','w'), indent=1)
print("claimed", sorted(claimed), "na", sorted(na))
