#!/usr/bin/env python3
"""Regenerates MANIFEST.json from the table below (kept in one place so that
the manifest stays valid while properties are added)."""
import json, subprocess

claimed = {
 "C01": dict(text="Deductive proof, per function, that the evaluator's overflow-checked arithmetic and duration conversions equal their mathematical specification for all 2^64 operands (see evidence for the list of functions under contract).",
             note="Contracts cover the functions listed in evidence.functions_under_contract only; everything else anchored by C01 is unverified surroundings. Trusted: govc VC generator, z3/cvc5, Go type checker.",
             ref="DESIGN.md §6 C01"),
 "C12": dict(text="Deductive proof that decimal/duration constructors, parsers' integer arithmetic and conversions are exact or return an error (no silent wrap) for all inputs; formatting/byte-level round trips are not covered.",
             note="strconv/strings/time callees are used through assumed contracts (contracts/stdlib.spec); text produced by fmt/strconv is opaque. One known finding (Duration(MinInt64).String()).",
             ref="DESIGN.md §6 C12"),
}
claimed.update({
 "C02": dict(text="Deductive proof of cedar.Authorize against the decision rule of the property (default deny, forbid overrides, erroring policies skipped; reasons and errors as sets with their positions), by loop invariants over an arbitrarily ordered enumeration of the policy collection; PolicySet.IsAuthorized is proved to be Authorize on the set's contents.",
             note="'satisfied' is defined through the compiled BoolEvaler of the policy (link to the AST semantics is C01/C04). Policy ids yielded by a user iterator are assumed distinct. Trusted: Go map range semantics, iterator shape check (iter-canonical).",
             ref="DESIGN.md §6 C02"),
 "C20": dict(text="Deductive proof, per operation, that PolicySet behaves as the id->policy map p.policies (New, Get, Add, Remove, Map, All, IsAuthorized): refinement of a map model for every pre-state, hence for every finite history.",
             note="Document loading (policyN ids, file names) and marshal order are not yet under contract; the zero PolicySet{} (nil map) is excluded by precondition.",
             ref="DESIGN.md §6 C20"),
 "C03": dict(text="Deductive proof that the hierarchy search (entityInOne, entityInSet) returns true exactly when the target is reachable: soundness by an invariant over the visited set, completeness by exhibiting a set closed under the parent relation that contains the start and excludes the target (induction principle of the closure stated as an axiom); mapset operations against their set view.",
             note="reach is axiomatised (reflexive, closed under edges, least: closure-induction axiom). Termination is not proved. Scope forms in the partial evaluator are not yet under contract. EntityGetter.Get is assumed deterministic.",
             ref="DESIGN.md §6 C03"),
 "C10": dict(text="Deductive panic-freedom sweep (index/slice bounds, nil dereference, type assertions, explicit panics, nil-map writes) of the whole Cedar text parser (cedar_unmarshal.go) under the parser representation invariant, plus entity-UID/pattern code and the decimal/duration parsers; holds for every token list / input string.",
             note="Covers the functions listed in evidence only. JSON codecs, encoders, tokenizer and schema decoders are unverified surroundings (recursive pointer-linked structures need a heap model the engine does not have); stack depth / termination not proved. Tokenize is assumed to return a non-empty token list.",
             ref="DESIGN.md §6 C10"),
 "C19": dict(text="Frame proof (syntactic assigns/modifies analysis, transitive over callees) that the read-only entry points (Authorize, IsAuthorized, Marshal*, accessors) write only memory they allocated themselves; two calls that only read shared memory cannot race and a function of immutable inputs returns what it would return alone.",
             note="Concurrency itself (interleavings, the race detector) is outside this technique; the frame condition is the sufficient condition decided here. Interface methods and unlisted standard-library callees are assumed not to write through their arguments.",
             ref="DESIGN.md §6 C19"),
})
na = {}
props = [json.loads(l) for l in open('properties.jsonl')]
for p in props:
    if p['id'] not in claimed:
        na[p['id']] = "not yet claimed in this revision: contracts for the functions this property depends on are still being written (see DESIGN.md §6); will be claimed or declared not applicable with the final reason"
na["C13"] = "decided by the bytes encoding/json reads and writes and by reflection-driven struct-tag handling; formatters and encoding/json are opaque to the contract logic, so no contract within reach of the generator can express 'the JSON text of v' (DESIGN.md §7)"
na["C17"] = "string-level round trip of an 850-line schema text parser against a 350-line printer plus a JSON codec; byte-level formatting is opaque to the contract logic (DESIGN.md §7); crash/termination aspects are claimed under C16"

m = {
 "version": 1,
 "setup_cmd": "cd /verif/engine && GOFLAGS=-mod=vendor GOPROXY=off GOSUMDB=off GOTOOLCHAIN=local go build -o /verif/bin/govc .",
 "hooks": {
   "guard": "verif",
   "enable": "go build tag `verif` (go/packages is run with -tags=verif; the hook files are comment-only zz_contracts_verif.go files holding the //@ contracts)",
   "baseline_off_cmd": "cd /repo && GOFLAGS=-mod=mod GOPROXY=off GOSUMDB=off go test -json -vet=off -count=1 -timeout 25m ./...",
   "source_commits": subprocess.run(["git","-C","/repo","log","--format=%h","--grep=^verif:"],capture_output=True,text=True).stdout.split(),
   "add_only": True,
 },
 "engines": [{"name": "govc", "path": "/verif/engine", "serves_properties": sorted(claimed),
              "kind_free_text": "verification-condition generator for Go (typed AST, forward symbolic execution with loop invariants and calls by contract) + z3 5.1/4.8.12 + cvc5; contracts are //@ comments in /repo/**/zz_contracts_verif.go"}],
 "checks": [],
 "not_applicable": [{"property_id": k, "reason": v} for k, v in sorted(na.items())],
 "notes": "All checks are `./check <id>`; evidence is written by govc itself. Known findings: /verif/KNOWN_FINDINGS.txt. Seeded changes: /verif/seeded/.",
}
for pid in sorted(claimed):
    c = claimed[pid]
    m["checks"].append({
      "property_id": pid,
      "quick_cmd": f"./check {pid} --tier quick",
      "thorough_cmd": f"./check {pid} --tier thorough",
      "evidence_file": f"/verif/evidence/{pid}.json",
      "replay_cmd_template": f"./check {pid} --replay {{path}}",
      "engine": "govc",
      "level_claimed": {"category": "proof", "text": c["text"], "design_ref": c["ref"]},
      "level_note": c["note"],
      "technique": "contract-based deductive verification: weakest-precondition style VCs generated from /repo's typed AST against //@ contracts, discharged by z3/cvc5",
    })
json.dump(m, open('MANIFEST.json','w'), indent=1)
print("claimed", sorted(claimed), "na", sorted(na))
