#!/bin/bash
# selftest/run.sh [-j N] [filter]: every entry of corpus.txt must make its property check exit 1 with a VIOLATION
# line; with no filter, every claimed check must also exit 0 on the unchanged tree. Scratch copies live under
# /tmp only for the duration of one entry.
set -u
cd /verif
J=3; [ "${1:-}" = "-j" ] && { J=$2; shift 2; }
FILTER="${1:-}"
export GOFLAGS=-mod=mod GOPROXY=off GOSUMDB=off GOTOOLCHAIN=local
one() {
  prop=$1; kind=$2; what=$3
  S=$(mktemp -d /tmp/govc_selftest.XXXXXX)
  rsync -a --exclude .git /repo/ "$S/"
  if [ "$kind" = patch ]; then
    (cd "$S" && patch -p1 -s < "/verif/$what") >/dev/null 2>&1 || { echo "SKIP  $prop $what (patch does not apply)"; rm -rf "$S"; return 0; }
  else
    git -C /repo show "$what" -- . ':(exclude)*zz_contracts_verif.go' | (cd "$S" && patch -R -p1 -s) >/dev/null 2>&1 || { echo "SKIP  $prop revert $what (does not apply)"; rm -rf "$S"; return 0; }
  fi
  out=$(/verif/check "$prop" --repo "$S" 2>&1); rc=$?
  rm -rf "$S"
  if [ $rc -eq 1 ] && echo "$out" | grep -q "^VIOLATION property=$prop"; then
    echo "ok    $prop $kind $what: $(echo "$out" | grep -c '^VIOLATION') violation(s)"
  else
    echo "MISS  $prop $kind $what: exit $rc, no VIOLATION"; return 1
  fi
}
export -f one
fail=0
grep -v '^#' selftest/corpus.txt | grep -v '^$' | { [ -n "$FILTER" ] && grep "$FILTER" || cat; } > /tmp/govc_selftest_list.$$
xargs -P "$J" -L 1 bash -c 'one "$0" "$1" "$2"' < /tmp/govc_selftest_list.$$ | tee /tmp/govc_selftest_out.$$
grep -q '^MISS' /tmp/govc_selftest_out.$$ && fail=1
rm -f /tmp/govc_selftest_list.$$ /tmp/govc_selftest_out.$$
if [ -z "$FILTER" ]; then
  for p in $(python3 -c "import json;print(' '.join(c['property_id'] for c in json.load(open('/verif/MANIFEST.json'))['checks']))"); do
    ./check "$p" > /tmp/govc_selftest_clean.$$ 2>&1; rc=$?
    if [ $rc -ne 0 ] || grep -q '^VIOLATION' /tmp/govc_selftest_clean.$$; then echo "ALARM $p on the unchanged tree (exit $rc)"; fail=1; else echo "clean $p"; fi
  done
  rm -f /tmp/govc_selftest_clean.$$
fi
rm -rf /verif/out/scratch
exit $fail
