#!/bin/bash
# tools/confirm_queue.sh <PROP:n> ... : confirm seeds sequentially (seed sources in /tmp/wt_<PROP>/_seed/change<n>)
for spec in "$@"; do
  p=${spec%%:*}; i=${spec##*:}
  /verif/tools/confirm_seed.sh /tmp/wt_$p/_seed/change$i $p ${p}_$i >> /tmp/confirm_queue.txt 2>&1
done
