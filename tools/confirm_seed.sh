#!/bin/bash
# tools/confirm_seed.sh <seed-src-dir> <property> <name>
# Confirms a seeded change in a scratch copy of /repo (compiles, existing tests of the touched packages and of
# the root package pass, the demonstration fails with the change and passes without), runs the property's check
# against it and, if everything is confirmed, stores it as /verif/seeded/<name>/.
set -u
export GOFLAGS=-mod=mod GOPROXY=off GOSUMDB=off GOTOOLCHAIN=local
SRC="$1"; PROP="$2"; NAME="$3"
S=$(mktemp -d /tmp/seedconf.XXXXXX)
trap 'rm -rf "$S"' EXIT
rsync -a --exclude .git /repo/ "$S/"
DEMO="$SRC/demo_test.go"
PKGDIR=$(head -3 "$DEMO" | grep -o 'directory[^a-zA-Z0-9/._-]*[a-zA-Z0-9/._-]*' | head -1 | awk '{print $NF}')
# the first-line comment names the package directory; fall back to the package clause
PKGDIR=$(python3 - "$DEMO" "$S" <<'P'
import re,sys,os
txt=open(sys.argv[1]).read(); root=sys.argv[2]
m=re.search(r'^package\s+(\w+)',txt,re.M); pk=m.group(1)
head="\n".join(txt.split("\n")[:5])
cands=re.findall(r'[\w./-]+',head)
for c in cands:
    c=c.strip('./')
    if c and os.path.isdir(os.path.join(root,c)) and c not in ('.',):
        if any(f.endswith('.go') for f in os.listdir(os.path.join(root,c))):
            print(c); break
else:
    print('.')
P
)
echo "demo package dir: $PKGDIR"
cp "$DEMO" "$S/$PKGDIR/zz_seed_demo_test.go"
RUNRE=$(grep -o '^func Test[A-Za-z0-9_]*' "$DEMO" | sed 's/func //' | paste -sd'|')
(cd "$S/$PKGDIR" && go test -vet=off -count=1 -run "^($RUNRE)\$" . > "$S/_demo_clean.txt" 2>&1); CLEAN=$?
(cd "$S" && patch -p1 -s < "$SRC/patch.diff") || { echo "PATCH FAILED"; exit 3; }
TOUCHED=$(grep '^+++ b/' "$SRC/patch.diff" | sed 's#+++ b/##' | xargs -n1 dirname | sort -u)
(cd "$S" && go build ./... > "$S/_build.txt" 2>&1); BUILD=$?
(cd "$S/$PKGDIR" && go test -vet=off -count=1 -run "^($RUNRE)\$" . > "$S/_demo_mut.txt" 2>&1); MUT=$?
rm -f "$S/$PKGDIR/zz_seed_demo_test.go"
TESTS=0; TESTED=""
for d in $TOUCHED .; do
  TESTED="$TESTED ./$d"
  (cd "$S/$d" && go test -vet=off -count=1 . > "$S/_tests_$(echo $d | tr / _).txt" 2>&1) || TESTS=1
done
CHECK=$(/verif/check "$PROP" --repo "$S" 2>&1 | grep -E "^(VIOLATION|govc: property)" | sed "s#$S#<scratch>#g")
DETECTED=no; echo "$CHECK" | grep -q '^VIOLATION' && DETECTED=yes
echo "build=$BUILD existing_tests=$TESTS demo_clean=$CLEAN demo_mutated=$MUT detected=$DETECTED"
echo "$CHECK" | tail -3
if [ $BUILD -eq 0 ] && [ $TESTS -eq 0 ] && [ $CLEAN -eq 0 ] && [ $MUT -ne 0 ]; then
  D=/verif/seeded/$NAME; mkdir -p "$D"
  cp "$SRC/patch.diff" "$D/patch.diff"; cp "$DEMO" "$D/demo_test.go"; [ -f "$SRC/notes.md" ] && cp "$SRC/notes.md" "$D/notes.md"
  python3 - "$D" "$PROP" "$PKGDIR" "$TESTED" "$DETECTED" "$CHECK" <<'P'
import json,sys,re
d,prop,pkg,tested,detected,check=sys.argv[1:7]
notes=open(d+'/notes.md').read() if __import__('os').path.exists(d+'/notes.md') else ''
meta={"property":prop,"breaks":prop,"demo_package_dir":pkg,
 "needs_to_manifest":(re.search(r'(?is)(needs?|manifest)[^\n]*\n?(.{0,600})',notes).group(0)[:700] if notes else ''),
 "confirmed":{"compiles":True,"existing_tests_pass":tested.split(),"demo_fails_with_change":True,"demo_passes_without_change":True,
   "how":"tools/confirm_seed.sh in a scratch copy of /repo (rsync, patch -p1, go build ./..., go test of touched packages and root, demo test both ways)"},
 "detected_by_check":detected=="yes","check_output":check.split("\n")[-4:]}
json.dump(meta,open(d+'/meta.json','w'),indent=1)
P
  echo "stored $D"
else
  echo "NOT CONFIRMED"; tail -5 "$S"/_build.txt "$S"/_demo_clean.txt "$S"/_demo_mut.txt 2>/dev/null | head -40
fi
