#!/bin/bash
# tools/mutcheck.sh <patch.diff> <prop> [<prop>...]: apply a patch to a scratch copy of /repo and run the checks on it.
set -u
PATCH="$1"; shift
S=$(mktemp -d /tmp/govc_scratch.XXXXXX)
rsync -a --exclude .git /repo/ "$S/"
(cd "$S" && patch -p1 -s < "$PATCH") || { echo "patch failed"; rm -rf "$S"; exit 3; }
rc=0
for P in "$@"; do
  /verif/check "$P" --repo "$S" 2>&1 | grep -E "^(VIOLATION|KNOWN|govc: property|ERROR)" | sed "s#$S#<scratch>#g"
done
rm -rf "$S"
