#!/bin/bash
# tools/recheck_seed.sh <name> [<prop>...]: re-run the property check(s) against a stored seeded change and record
# the verdict in its meta.json (the confirmation of the change itself is not repeated).
set -u
NAME="$1"; shift
D=/verif/seeded/$NAME
PROPS="$*"; [ -z "$PROPS" ] && PROPS=$(python3 -c "import json;print(json.load(open('$D/meta.json'))['property'])")
S=$(mktemp -d /tmp/seedre.XXXXXX); trap 'rm -rf "$S"' EXIT
rsync -a --exclude .git /repo/ "$S/"
(cd "$S" && patch -p1 -s < "$D/patch.diff") || { echo "PATCH FAILED"; exit 3; }
OUT=""; DET=no; BY=""
for P in $PROPS; do
  C=$(/verif/check "$P" --repo "$S" 2>/dev/null | grep -E "^(VIOLATION|govc: property)" | sed "s#/verif/out/scratch/[0-9]*/##g")
  OUT="$OUT$C"$'\n'
  if echo "$C" | grep -q '^VIOLATION'; then DET=yes; BY="$BY $P"; fi
done
python3 - "$D" "$DET" "$BY" "$OUT" <<'P'
import json,sys
d,det,by,out=sys.argv[1:5]
m=json.load(open(d+'/meta.json'))
m['detected_by_check']=det=='yes'
m['detected_by_properties']=by.split()
m['check_output']=[l for l in out.split('\n') if l][-6:]
json.dump(m,open(d+'/meta.json','w'),indent=1)
print(d.split('/')[-1],'detected=',det,'by',by)
P
